"""Grammar-based xlsx generator for C03: varies the *file* encodings of cells (t = s / str / inlineStr / b / e / n / absent),
shared-formula blocks, xml:space, entities and character references in text and attributes, optional attributes, column and
row spans, rich / phonetic strings and style resolution through cellXfs - and records the intended meaning of every file.
Everything emitted stays inside what Excel itself writes for the construct, except for one layout variant: a third of the
files carry indented ("pretty-printed") sheet XML, as XML libraries of other producers write it - white space between
elements of element-only content means nothing. stdlib only."""
import io, json, random, re, zipfile
from xml.sax.saxutils import escape

NS = 'http://schemas.openxmlformats.org/spreadsheetml/2006/main'
RNS = 'http://schemas.openxmlformats.org/officeDocument/2006/relationships'


def col(n):
    s = ''
    while n > 0:
        n, r = divmod(n - 1, 26)
        s = chr(65 + r) + s
    return s


def attr(v):
    """attribute value, entity-escaped the way a serializer may legally do it"""
    return escape(v, {'"': '&quot;', "'": '&apos;'})


def text_xml(rng, s):
    """element text: characters may be written literally, as predefined entities or as character references"""
    out = []
    for ch in s:
        if ch == '&':
            out.append('&amp;')
        elif ch == '<':
            out.append('&lt;')
        elif ch == '>':
            out.append(rng.choice(['&gt;', '>']))
        elif ch == '\n':
            out.append(rng.choice(['\n', '&#10;', '&#xA;']))
        elif ch == '\r':
            # a literal CR would be normalised by XML; Excel writes _x000D_, a character reference is equally faithful
            out.append(rng.choice(['&#13;', '_x000D_']))
        elif ch == '\t':
            out.append(rng.choice(['\t', '&#9;']))
        elif rng.random() < 0.03 and ch.isalnum():
            out.append('&#%d;' % ord(ch) if rng.random() < 0.5 else '&#x%X;' % ord(ch))
        else:
            out.append(ch)
    return ''.join(out)


TEXTS = ['plain', 'Two words', ' lead', 'trail ', '  both  ', 'a&b', '<tag>', 'q"uote', "ap'os", 'line1\nline2', 'tab\there', 'é日本😀', '123', '1e5', 'TRUE', '#N/A', '0012',
         'x' * 300, 'cr\rlf', 'Zoë\rKöln 日本😀', '', 'Ünï', '=not formula', "it's <b>&amp;</b>"]
ERRORS = ['#DIV/0!', '#N/A', '#NAME?', '#NULL!', '#NUM!', '#REF!', '#VALUE!']


# ---------------------------------------------------------------- formulas (tiny AST: list of terms joined by operators)
class Ref:
    def __init__(self, c, r, lc=False, lr=False, c2=None, r2=None, sheet=None):
        self.c, self.r, self.lc, self.lr, self.c2, self.r2, self.sheet = c, r, lc, lr, c2, r2, sheet

    def render(self, dc=0, dr=0):
        def one(c, r):
            cc = c if self.lc else c + dc
            rr = r if self.lr else r + dr
            return ('$' if self.lc else '') + col(cc) + ('$' if self.lr else '') + str(rr)
        s = one(self.c, self.r)
        if self.c2 is not None:
            s += ':' + one(self.c2, self.r2)
        if self.sheet:
            s = self.sheet + '!' + s
        return s

    def fits(self, dc, dr):
        for c, r in ((self.c, self.r),) + (((self.c2, self.r2),) if self.c2 is not None else ()):
            cc = c if self.lc else c + dc
            rr = r if self.lr else r + dr
            if cc < 1 or rr < 1 or cc > 16384 or rr > 1048576:
                return False
        return True


def gen_formula(rng, base_c, base_r, sheets):
    """terms around (base_c, base_r); references may point above / left of the cell (never off the grid for the block)"""
    n = rng.randint(1, 3)
    parts = []
    for i in range(n):
        k = rng.random()
        if k < 0.55:
            c = max(1, base_c + rng.randint(-2, 6))
            r = max(1, base_r + rng.randint(-2, 8))
            ref = Ref(c, r, rng.random() < 0.25, rng.random() < 0.25)
            if rng.random() < 0.3:
                ref.c2, ref.r2 = c + rng.randint(0, 3), r + rng.randint(0, 3)
            if rng.random() < 0.2 and sheets:
                ref.sheet = rng.choice(sheets)
            parts.append(('SUM(', ref, ')') if ref.c2 is not None else ('', ref, ''))
        elif k < 0.75:
            parts.append(('', str(rng.choice([1, 2, 10, 0.5, 100])), ''))
        elif k < 0.9:
            parts.append(('', '"%s"' % rng.choice(['a', 'x y', 'A1', 'it''s', 'q""q']), ''))
        else:
            parts.append(('', rng.choice(['TRUE', 'PI()', 'NOW()']), ''))
    ops = [rng.choice(['+', '-', '*', '&', '=']) for _ in range(n - 1)]
    return parts, ops


def render_formula(f, dc=0, dr=0):
    parts, ops = f
    out = []
    for i, (a, mid, b) in enumerate(parts):
        out.append(a + (mid.render(dc, dr) if isinstance(mid, Ref) else mid) + b)
        if i < len(ops):
            out.append(ops[i])
    return ''.join(out)


def formula_fits(f, dc, dr):
    return all(mid.fits(dc, dr) for (_, mid, _) in f[0] if isinstance(mid, Ref))


# ---------------------------------------------------------------- workbook model
def generate(seed):
    rng = random.Random(seed)
    nsheets = rng.randint(1, 3)
    # 'R&amp;D' is a name that itself contains the characters of an entity (written &amp;amp; in the file)
    pool = ['Sheet1', 'Data 2', 'Q&A', "it's", 'a<b>', 'Zahlen"x"', '日本', 'R1', 'R&amp;D', 'x&#65;y']
    rng.shuffle(pool)
    names = pool[:nsheets]
    plain_names = [n for n in names if n.isalnum() and not n[0].isdigit() and n != 'R1']
    sst = []          # list of (xml, text, rich)
    sst_index = {}
    features = set()

    def shared(text, rich=False, phonetic=False):
        key = (text, rich, phonetic)
        if key in sst_index and rng.random() < 0.7:
            return sst_index[key]
        if rich:
            cut = max(1, len(text) // 2)
            runs = [text[:cut], text[cut:]]
            xml = ''.join('<r>%s<t%s>%s</t></r>' % ('<rPr><b/><sz val="12"/><rFont val="Arial"/></rPr>' if i else '', ' xml:space="preserve"' if (r != r.strip() or rng.random() < 0.3) else '', text_xml(rng, r)) for i, r in enumerate(runs) if r or i == 0)
        else:
            xml = '<t%s>%s</t>' % (' xml:space="preserve"' if (text != text.strip() or rng.random() < 0.2) else '', text_xml(rng, text))
        if phonetic:
            xml += '<rPh sb="0" eb="1"><t>フリガナ</t></rPh><phoneticPr fontId="1"/>'
            features.add('phonetic')
        sst.append((xml, text, rich))
        sst_index[key] = len(sst) - 1
        return len(sst) - 1

    # styles: cellXfs referencing number formats (builtin + custom) and fonts
    fonts = [('Calibri', 11, False), ('Arial', 10, True), ('MS Gothic', 9, False), ('A&B "Font"', 14, False)]
    codes = ['0.000', '"a&b" 0', 'yyyy\\-mm\\-dd', '#,##0.00 "<€>"']
    # ids of custom formats are whatever the producer chose: contiguous from 164, or with gaps (after formats were deleted)
    ids = [164, 165, 166, 167] if rng.random() < 0.6 else rng.sample(range(170, 186), 4)
    if ids[0] != 164:
        features.add('numfmt-ids-with-gaps')
    custom = dict(zip(ids, codes))
    # Excel in some locales redefines built-in ids (accounting / currency formats) in <numFmts>; the file's code wins
    if rng.random() < 0.5:
        custom[44] = '_ "¥"* #,##0.00_ ;_ "¥"* \\-#,##0.00_ ;_ "¥"* "-"??_ ;_ @_ '
        features.add('numfmt-redefines-builtin-id')
    if rng.random() < 0.3:
        custom[6] = '"¥"#,##0;[Red]"¥"\\-#,##0'
        features.add('numfmt-redefines-builtin-id')
    # id 14 is left out: its code is locale dependent (ECMA lists mm-dd-yy, Excel and this library show m/d/yyyy)
    builtin = {0: 'General', 1: '0', 2: '0.00', 9: '0%', 10: '0.00%', 49: '@', 4: '#,##0.00'}
    # the Normal cell style may say that its own number format / font do not apply; a cell xf that applies its own is not affected
    style_flags = rng.choice(['', '', ' applyNumberFormat="0" applyFont="0" applyAlignment="0" applyProtection="0"', ' applyNumberFormat="0"'])
    if style_flags:
        features.add('cellstyle-xf-apply-flags')
    xfs = [(0, 0, None)]
    for _ in range(rng.randint(1, 8)):
        nid = rng.choice(list(custom) + list(builtin))
        xfs.append((nid, rng.randrange(len(fonts)), '1' if style_flags else rng.choice([None, None, '1'])))
    sheets = []
    dnames = []
    all_tables = []
    apos = rng.random() < 0.25
    if apos:
        features.add('apostrophe-quoted-attributes')
    pretty = rng.random() < 0.33
    if pretty:
        features.add('indented-sheet-xml')
    for si, name in enumerate(names):
        cells = {}
        xml_rows = {}
        links = []
        merges = []
        # plain cells
        for _ in range(rng.randint(3, 40)):
            c, r = rng.randint(1, 10), rng.randint(1, 30)
            if (c, r) in cells:
                continue
            ref = col(c) + str(r)
            s_idx = rng.randrange(len(xfs)) if rng.random() < 0.4 else None
            s_attr = ' s="%d"' % s_idx if s_idx else ''
            kind = rng.choice(['s', 's', 's-rich', 'n', 'n-absent', 'b', 'e', 'str', 'inlineStr', 'inlineStr-rich', 'blank-styled', 'f-b', 'f-e', 'f-n'])
            m = {'k': '', 'v': '', 'f': ''}
            if kind in ('s', 's-rich'):
                t = rng.choice(TEXTS)
                if kind == 's-rich' and len(t) < 2:
                    t = 'rich text'
                i = shared(t, kind == 's-rich', rng.random() < 0.1)
                x = '<c r="%s"%s t="s"><v>%d</v></c>' % (ref, s_attr, i)
                m.update(k='rich' if kind == 's-rich' else 'text', v=t)
            elif kind in ('n', 'n-absent'):
                v = rng.choice(['0', '1', '-1.5', '3.14159', '1E+21', '2.5E-7', '123456789012345', '0.1', '43831', '1e3', '-0'])
                x = '<c r="%s"%s%s><v>%s</v></c>' % (ref, s_attr, ' t="n"' if kind == 'n' else '', v)
                m.update(k='number', v=v)
            elif kind == 'b':
                b = rng.choice(['0', '1'])
                x = '<c r="%s"%s t="b"><v>%s</v></c>' % (ref, s_attr, b)
                m.update(k='bool', v='TRUE' if b == '1' else 'FALSE')
            elif kind == 'e':
                e = rng.choice(ERRORS)
                x = '<c r="%s"%s t="e"><v>%s</v></c>' % (ref, s_attr, e)
                m.update(k='error', v=e)
            elif kind == 'str':
                # the cached string of a formula may be empty
                t = rng.choice([t for t in TEXTS if t]) if rng.random() < 0.85 else ''
                f = gen_formula(rng, c, r, plain_names)
                x = '<c r="%s"%s t="str"><f>%s</f><v>%s</v></c>' % (ref, s_attr, escape(render_formula(f)), text_xml(rng, t))
                m.update(k='text', v=t, f=render_formula(f))
                features.add('t=str')
            elif kind in ('f-b', 'f-e', 'f-n'):
                # a formula whose cached result is a boolean, an error or a number
                f = gen_formula(rng, c, r, plain_names)
                if kind == 'f-b':
                    v, k, tattr = rng.choice(['0', '1']), 'bool', ' t="b"'
                    mv = 'TRUE' if v == '1' else 'FALSE'
                elif kind == 'f-e':
                    v, k, tattr = rng.choice(ERRORS), 'error', ' t="e"'
                    mv = v
                else:
                    v, k, tattr = rng.choice(['0', '12.5', '-3', '1E-3']), 'number', rng.choice(['', ' t="n"'])
                    mv = v
                x = '<c r="%s"%s%s><f>%s</f><v>%s</v></c>' % (ref, s_attr, tattr, escape(render_formula(f)), v)
                m.update(k=k, v=mv, f=render_formula(f))
                features.add('formula-cached-' + k)
            elif kind in ('inlineStr', 'inlineStr-rich'):
                t = rng.choice([t for t in TEXTS if t])
                if kind == 'inlineStr-rich':
                    cut = max(1, len(t) // 2)
                    inner = '<r><t xml:space="preserve">%s</t></r><r><rPr><i/></rPr><t xml:space="preserve">%s</t></r>' % (text_xml(rng, t[:cut]), text_xml(rng, t[cut:]))
                    features.add('inlineStr-rich')
                else:
                    inner = '<t%s>%s</t>' % (' xml:space="preserve"' if t != t.strip() else '', text_xml(rng, t))
                x = '<c r="%s"%s t="inlineStr"><is>%s</is></c>' % (ref, s_attr, inner)
                m.update(k='rich' if kind == 'inlineStr-rich' else 'text', v=t)
                features.add('inlineStr')
                if t in ('123', '1e5', 'TRUE', '#N/A', '0012'):
                    features.add('inlineStr-lookalike')
            else:
                if not s_idx:
                    continue
                x = '<c r="%s"%s/>' % (ref, s_attr)
                m = None
            if m is not None:
                if s_idx:
                    nid, fid, _ = xfs[s_idx]
                    m['numfmt'] = custom.get(nid, builtin.get(nid))
                    m['font'] = list(fonts[fid])
                cells[(c, r)] = m
            else:
                cells[(c, r)] = None
            xml_rows.setdefault(r, {})[c] = x
        # normal and shared formulas in a block to the right
        for b in range(rng.randint(0, 3)):
            c0, r0 = 12 + 4 * b, rng.randint(1, 10)
            w, h = rng.randint(1, 3), rng.randint(1, 6)
            # the master is the first cell of the block in document order, not necessarily the top-left cell of `ref`:
            # it may sit anywhere in the first row; cells left of it in that row are not part of the block,
            # children in later rows may lie left of the master (negative column offset)
            mdc = rng.randint(0, w - 1) if rng.random() < 0.5 else 0
            f = gen_formula(rng, c0 + mdc, r0, plain_names)
            use_shared = rng.random() < 0.7 and w * h > 1
            if use_shared:
                features.add('shared-formula')
                if mdc:
                    features.add('shared-formula-master-not-top-left')
            for dr in range(h):
                for dc in range(w):
                    if dr == 0 and dc < mdc:
                        continue
                    c, r = c0 + dc, r0 + dr
                    odc = dc - mdc
                    if (c, r) in cells or not formula_fits(f, odc, dr):
                        continue
                    ref = col(c) + str(r)
                    val = str(rng.randint(0, 999))
                    text = render_formula(f, odc, dr)
                    if use_shared:
                        if odc == 0 and dr == 0:
                            ftag = '<f t="shared" ref="%s:%s" si="%d">%s</f>' % (col(c0) + str(r0), col(c0 + w - 1) + str(r0 + h - 1), b, escape(text))
                        else:
                            # a member without text is an empty element: self-closing or start + end tag
                            ftag = '<f t="shared" si="%d"/>' % b if rng.random() < 0.6 else '<f t="shared" si="%d"></f>' % b
                            if ftag.endswith('</f>'):
                                features.add('shared-formula-member-with-end-tag')
                            if any(isinstance(mid, Ref) and (mid.lc or mid.lr) for (_, mid, _) in f[0]):
                                features.add('shared-formula-abs')
                            if any(isinstance(mid, Ref) and (mid.c < c0 or mid.r < r0) for (_, mid, _) in f[0]):
                                features.add('shared-formula-ref-before-master')
                    else:
                        ftag = '<f>%s</f>' % escape(text)
                    xml_rows.setdefault(r, {})[c] = '<c r="%s">%s<v>%s</v></c>' % (ref, ftag, val)
                    cells[(c, r)] = {'k': 'number', 'v': val, 'f': text}
        # a table whose column names need entity escaping in the tableColumn attributes (header cells carry the same text)
        tables = []
        if rng.random() < 0.35:
            ncols = rng.randint(1, 4)
            tc, tr, th = 40, rng.randint(45, 50), rng.randint(1, 3)
            colnames = rng.sample(['A&B', '<tag>', 'q"x', "it's", 'é日本', 'Col 1', 'a>b', '100%'], ncols)
            for j, cn in enumerate(colnames):
                i = shared(cn)
                xml_rows.setdefault(tr, {})[tc + j] = '<c r="%s%d" t="s"><v>%d</v></c>' % (col(tc + j), tr, i)
                cells[(tc + j, tr)] = {'k': 'text', 'v': cn, 'f': ''}
            tables.append(('Tbl_%d_%d' % (si + 1, seed % 1000), '%s%d:%s%d' % (col(tc), tr, col(tc + ncols - 1), tr + th), colnames, True))
            features.add('table')
        if rng.random() < 0.2:
            # a table without header row and with a single record
            ncols = rng.randint(1, 3)
            tc, tr = 50, rng.randint(55, 58)
            for j in range(ncols):
                xml_rows.setdefault(tr, {})[tc + j] = '<c r="%s%d"><v>%d</v></c>' % (col(tc + j), tr, j + 1)
                cells[(tc + j, tr)] = {'k': 'number', 'v': str(j + 1), 'f': ''}
            tables.append(('One_%d_%d' % (si + 1, seed % 1000), '%s%d:%s%d' % (col(tc), tr, col(tc + ncols - 1), tr), ['P%d' % (j + 1) for j in range(ncols)], False))
            features.add('table-one-row-no-header')
        rows_xml = []
        for r in sorted(xml_rows):
            cs = xml_rows[r]
            opt = ''
            if rng.random() < 0.5:
                opt += ' spans="%d:%d"' % (min(cs), max(cs))
            if rng.random() < 0.2:
                opt += ' ht="%s" customHeight="1"' % rng.choice(['20', '12.75', '30.5'])
            rows_xml.append('<row r="%d"%s>%s</row>' % (r, opt, ''.join(cs[c] for c in sorted(cs))))
        # hyperlinks
        rels = []
        hl = []
        texty = [k for k, v in cells.items() if v and v['k'] == 'text']
        rng.shuffle(texty)
        for j, (c, r) in enumerate(texty[:rng.randint(0, 4)]):
            ref = col(c) + str(r)
            if rng.random() < 0.6:
                url = 'http://example.com/%d?a=1&b=%s' % (j, rng.choice(['2', '<x>', "'q'", 'é']))
                rels.append('<Relationship Id="rId%d" Type="%s/hyperlink" Target="%s" TargetMode="External"/>' % (j + 1, RNS, attr(url)))
                hl.append('<hyperlink ref="%s" r:id="rId%d"/>' % (ref, j + 1))
                links.append((ref, url, False))
            else:
                loc = "'%s'!A%d" % (name.replace("'", "''"), j + 1)
                hl.append('<hyperlink ref="%s" location="%s" display="d"/>' % (ref, attr(loc)))
                links.append((ref, loc, True))
        if rng.random() < 0.3 and 35 not in xml_rows:
            # a hyperlink on an empty cell: no <c>, not even a <row> for it in sheetData
            hl.append('<hyperlink ref="B35" location="%s" display="empty"/>' % attr("'%s'!C3" % name.replace("'", "''")))
            links.append(('B35', "'%s'!C3" % name.replace("'", "''"), True))
            features.add('hyperlink-on-cell-without-row')
        for j in range(rng.randint(0, 2)):
            c, r = 30 + 3 * j, 40
            m = '%s%d:%s%d' % (col(c), r, col(c + 1), r + 1)
            merges.append(m)
        cols = ''
        if rng.random() < 0.5:
            # columns 9 and 10 agree in everything but formatting (one of them refers to a cell xf)
            sty = rng.randrange(1, len(xfs))
            pair = rng.choice(['<col min="9" max="9" width="12.5" style="%d" customWidth="1"/><col min="10" max="10" width="12.5" customWidth="1"/>' % sty,
                               '<col min="9" max="9" width="12.5" customWidth="1"/><col min="10" max="10" width="12.5" style="%d" customWidth="1"/>' % sty, ''])
            cols = '<cols><col min="2" max="4" width="%s" customWidth="1"/><col min="7" max="7" width="22.5" hidden="1" customWidth="1"/>%s</cols>' % (rng.choice(['9.5', '15', '30.25']), pair)
            features.add('cols-span')
        table_parts = ''
        for t in tables:
            all_tables.append(t)
            rels.append('<Relationship Id="rId%d" Type="%s/table" Target="../tables/table%d.xml"/>' % (100 + len(all_tables), RNS, len(all_tables)))
            table_parts += '<tablePart r:id="rId%d"/>' % (100 + len(all_tables))
        if table_parts:
            table_parts = '<tableParts count="%d">%s</tableParts>' % (len(tables), table_parts)
        ws = ('<?xml version="1.0" encoding="UTF-8" standalone="yes"?>\n<worksheet xmlns="%s" xmlns:r="%s"><sheetViews><sheetView workbookViewId="0"/></sheetViews><sheetFormatPr defaultRowHeight="15"/>%s<sheetData>%s</sheetData>%s%s%s</worksheet>'
              % (NS, RNS, cols, ''.join(rows_xml), ('<mergeCells count="%d">%s</mergeCells>' % (len(merges), ''.join('<mergeCell ref="%s"/>' % m for m in merges))) if merges else '',
                 ('<hyperlinks>%s</hyperlinks>' % ''.join(hl)) if hl else '', table_parts))
        if apos:
            # attribute values delimited by apostrophes (equally legal XML; some serialisers write it)
            def requote(m_):
                return m_.group(0) if "'" in m_.group(2) else "%s='%s'" % (m_.group(1), m_.group(2).replace('&apos;', "'").replace("'", '&apos;').replace('&quot;', '"'))
            head, sep, tail = ws.partition('<sheetData>')
            body, sep2, rest = tail.partition('</sheetData>')
            body = re.sub(r'(?<=[ ])([A-Za-z:]+)="([^"<]*)"', requote, body)
            ws = head + sep + body + sep2 + rest
        if pretty:
            # line breaks and indentation between the elements of sheetData (never inside <v>, <f>, <t> or <is>)
            ws = re.sub(r'>(?=<(?:c |/c>|row |/row>|f[ >]|v>|is>|/sheetData>))', lambda m_: '>\n' + ' ' * rng.choice([2, 4, 8]), ws)
        sheets.append({'name': name, 'xml': ws, 'rels': rels, 'cells': {col(c) + str(r): v for (c, r), v in cells.items() if v}, 'links': links, 'merges': merges, 'tables': [t[:3] for t in tables]})
        if rng.random() < 0.5:
            q = "'%s'" % name.replace("'", "''") if not name.isalnum() or name == 'R1' else name
            dnames.append(('Name_%d' % si, '%s!$A$1:$B$%d' % (q, si + 2), None))
        if rng.random() < 0.3:
            q = "'%s'" % name.replace("'", "''")
            dnames.append(('_xlnm.Print_Area', '%s!$A$1:$C$9' % q, si))
    # ---- package
    buf = io.BytesIO()
    z = zipfile.ZipFile(buf, 'w', zipfile.ZIP_DEFLATED)
    ct = ['<?xml version="1.0" encoding="UTF-8" standalone="yes"?>\n<Types xmlns="http://schemas.openxmlformats.org/package/2006/content-types"><Default Extension="rels" ContentType="application/vnd.openxmlformats-package.relationships+xml"/><Default Extension="xml" ContentType="application/xml"/>',
          '<Override PartName="/xl/workbook.xml" ContentType="application/vnd.openxmlformats-officedocument.spreadsheetml.sheet.main+xml"/>',
          '<Override PartName="/xl/styles.xml" ContentType="application/vnd.openxmlformats-officedocument.spreadsheetml.styles+xml"/>',
          '<Override PartName="/xl/sharedStrings.xml" ContentType="application/vnd.openxmlformats-officedocument.spreadsheetml.sharedStrings+xml"/>']
    for i in range(len(sheets)):
        ct.append('<Override PartName="/xl/worksheets/sheet%d.xml" ContentType="application/vnd.openxmlformats-officedocument.spreadsheetml.worksheet+xml"/>' % (i + 1))
    for i in range(len(all_tables)):
        ct.append('<Override PartName="/xl/tables/table%d.xml" ContentType="application/vnd.openxmlformats-officedocument.spreadsheetml.table+xml"/>' % (i + 1))
    ct.append('</Types>')
    z.writestr('[Content_Types].xml', ''.join(ct))
    z.writestr('_rels/.rels', '<?xml version="1.0" encoding="UTF-8" standalone="yes"?>\n<Relationships xmlns="http://schemas.openxmlformats.org/package/2006/relationships"><Relationship Id="rId1" Type="%s/officeDocument" Target="xl/workbook.xml"/></Relationships>' % RNS)
    wb = ['<?xml version="1.0" encoding="UTF-8" standalone="yes"?>\n<workbook xmlns="%s" xmlns:r="%s"><bookViews><workbookView activeTab="%d"/></bookViews><sheets>' % (NS, RNS, rng.randrange(len(sheets)))]
    wrels = ['<?xml version="1.0" encoding="UTF-8" standalone="yes"?>\n<Relationships xmlns="http://schemas.openxmlformats.org/package/2006/relationships">']
    for i, s in enumerate(sheets):
        wb.append('<sheet name="%s" sheetId="%d" r:id="rId%d"/>' % (attr(s['name']), i + 1, i + 1))
        wrels.append('<Relationship Id="rId%d" Type="%s/worksheet" Target="worksheets/sheet%d.xml"/>' % (i + 1, RNS, i + 1))
        z.writestr('xl/worksheets/sheet%d.xml' % (i + 1), s['xml'])
        if s['rels']:
            z.writestr('xl/worksheets/_rels/sheet%d.xml.rels' % (i + 1), '<?xml version="1.0" encoding="UTF-8" standalone="yes"?>\n<Relationships xmlns="http://schemas.openxmlformats.org/package/2006/relationships">%s</Relationships>' % ''.join(s['rels']))
    for i, (tname, tref, tcols, header) in enumerate(all_tables):
        z.writestr('xl/tables/table%d.xml' % (i + 1), '<?xml version="1.0" encoding="UTF-8" standalone="yes"?>\n<table xmlns="%s" id="%d" name="%s" displayName="%s" ref="%s"%s totalsRowShown="0">%s<tableColumns count="%d">%s</tableColumns><tableStyleInfo name="TableStyleMedium2" showFirstColumn="0" showLastColumn="0" showRowStripes="1" showColumnStripes="0"/></table>'
                   % (NS, i + 1, tname, tname, tref, '' if header else ' headerRowCount="0"', ('<autoFilter ref="%s"/>' % tref) if header else '', len(tcols), ''.join('<tableColumn id="%d" name="%s"/>' % (j + 1, attr(cn)) for j, cn in enumerate(tcols))))
    wb.append('</sheets>')
    if dnames:
        wb.append('<definedNames>%s</definedNames>' % ''.join('<definedName name="%s"%s>%s</definedName>' % (attr(n), ' localSheetId="%d"' % l if l is not None else '', escape(a)) for n, a, l in dnames))
    wb.append('</workbook>')
    n = len(sheets)
    wrels.append('<Relationship Id="rId%d" Type="%s/styles" Target="styles.xml"/><Relationship Id="rId%d" Type="%s/sharedStrings" Target="sharedStrings.xml"/></Relationships>' % (n + 1, RNS, n + 2, RNS))
    z.writestr('xl/workbook.xml', ''.join(wb))
    z.writestr('xl/_rels/workbook.xml.rels', ''.join(wrels))
    z.writestr('xl/sharedStrings.xml', '<?xml version="1.0" encoding="UTF-8" standalone="yes"?>\n<sst xmlns="%s" count="%d" uniqueCount="%d">%s</sst>' % (NS, len(sst), len(sst), ''.join('<si>%s</si>' % x for x, _, _ in sst)))
    st = ['<?xml version="1.0" encoding="UTF-8" standalone="yes"?>\n<styleSheet xmlns="%s"><numFmts count="%d">%s</numFmts>' % (NS, len(custom), ''.join('<numFmt numFmtId="%d" formatCode="%s"/>' % (k, attr(v)) for k, v in custom.items()))]
    st.append('<fonts count="%d">%s</fonts>' % (len(fonts), ''.join('<font>%s<sz val="%d"/><name val="%s"/><family val="2"/></font>' % ('<b/>' if b else '', sz, attr(nm)) for nm, sz, b in fonts)))
    st.append('<fills count="2"><fill><patternFill patternType="none"/></fill><fill><patternFill patternType="gray125"/></fill></fills><borders count="1"><border><left/><right/><top/><bottom/><diagonal/></border></borders>')
    st.append('<cellStyleXfs count="1"><xf numFmtId="0" fontId="0" fillId="0" borderId="0"%s/></cellStyleXfs>' % style_flags)
    st.append('<cellXfs count="%d">%s</cellXfs>' % (len(xfs), ''.join('<xf numFmtId="%d" fontId="%d" fillId="0" borderId="0" xfId="0"%s/>' % (nid, fid, ' applyNumberFormat="1" applyFont="1"' if ap else '') for nid, fid, ap in xfs)))
    st.append('<cellStyles count="1"><cellStyle name="Normal" xfId="0" builtinId="0"/></cellStyles></styleSheet>')
    z.writestr('xl/styles.xml', ''.join(st))
    z.close()
    intent = {'seed': seed, 'features': sorted(features), 'sheets': [{'name': s['name'], 'cells': s['cells'], 'links': s['links'], 'merges': s['merges'], 'tables': s['tables']} for s in sheets],
              'names': [[n, a, l] for n, a, l in dnames]}
    return buf.getvalue(), intent


if __name__ == '__main__':
    import sys
    data, intent = generate(int(sys.argv[1]) if len(sys.argv) > 1 else 1)
    open('/tmp/gen.xlsx', 'wb').write(data)
    print(json.dumps(intent, ensure_ascii=False)[:1500])
