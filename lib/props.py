"""Per-property wiring: which harness commands / Python monitors decide each property."""
import json, os, subprocess, sys
import vlib


class Prop:
    level = "exploration"
    cmd = None          # uvh command
    cases = {"quick": None, "thorough": None}
    rule = ""
    assumptions = []

    def run(self, v, tier, seed):
        out = vlib.workdir(self.cmd)
        res = vlib.run_uvh(self.cmd, out, seed, tier, self.cases.get(tier))
        v.add_result(res)
        v.rule = self.rule
        v.assumptions = list(self.assumptions)
        self.post(v, res, out, tier, seed)

    def post(self, v, res, out, tier, seed):
        pass

    def replay(self, path):
        ex = json.load(open(path))
        out = vlib.workdir("replay")
        argv = [vlib.UVH, ex["cmd"], "--out", out, "--seed", str(ex["seed"]), "--case", str(ex["case"]), "--tier", ex.get("tier", "quick")]
        for k, val in (ex.get("extra") or {}).items():
            argv += ["--" + k, str(val)]
        p = subprocess.run(argv, text=True)
        res = json.load(open(os.path.join(out, "result.json")))
        n = sum(g["count"] for g in res.get("divergences", []))
        print("replay: %d divergence(s) reproduced" % n)
        return 1 if n else 0


class C17(Prop):
    cmd = "c17"
    rule = ("exhaustive enumeration of columns 1..16384 and all 18278 one-to-three-letter names; rows 1..1048576 "
            "(thorough: every row; quick: stride 61 per shard) x 9 boundary columns x lock combinations; random range shapes and "
            "legal sheet names; distinct = distinct (check class, input) pairs counted by hash")
    assumptions = ["oracle: bijective base-26 arithmetic written independently of helper::coordinate",
                   "legal sheet names = Excel's rules (no : \\ / ? * [ ], no leading/trailing apostrophe, <= 31 chars)"]

    def post(self, v, res, out, tier, seed):
        v.exhaustive = bool(res.get("exhaustive_columns_and_names")) and tier == "thorough"
        v.extra["exhaustive_columns_and_names"] = bool(res.get("exhaustive_columns_and_names"))
        v.extra["row_stride"] = res.get("row_stride")


class C18(Prop):
    cmd = "c18"
    rule = ("every day 1900-01-01..9999-12-31 at 3 (quick) / 4 (thorough) times of day incl. one random second, every second of "
            "6 (quick) / 40 (thorough) boundary days; formatted value on a 1/97 stride plus century leap boundaries; distinct = (date,time) pairs")
    assumptions = ["oracle: days-from-civil arithmetic (proleptic Gregorian) + the 1900 leap-day offset, independent of chrono and of the library",
                   "serial compared with tolerance 1e-9 day (two-step float rounding in either implementation is not a violation)"]

    def post(self, v, res, out, tier, seed):
        v.exhaustive = bool(res.get("exhaustive_days"))
        v.extra["total_days"] = res.get("total_days")


PROPS = {"C17": C17(), "C18": C18()}
