"""Per-property wiring: which harness commands / Python monitors decide each property."""
import json, os, subprocess, sys
import vlib


class Prop:
    level = "exploration"
    cmd = None          # uvh command
    cases = {"quick": None, "thorough": None}
    rule = ""
    assumptions = []

    def run(self, v, tier, seed):
        out = vlib.workdir(self.cmd)
        res = vlib.run_uvh(self.cmd, out, seed, tier, self.cases.get(tier))
        v.add_result(res)
        v.rule = self.rule
        v.assumptions = list(self.assumptions)
        self.post(v, res, out, tier, seed)

    def post(self, v, res, out, tier, seed):
        pass

    def replay(self, path):
        ex = json.load(open(path))
        out = vlib.workdir("replay")
        argv = [vlib.UVH, ex["cmd"], "--out", out, "--seed", str(ex["seed"]), "--case", str(ex["case"]), "--tier", ex.get("tier", "quick")]
        for k, val in (ex.get("extra") or {}).items():
            argv += ["--" + k, str(val)]
        p = subprocess.run(argv, text=True)
        res = json.load(open(os.path.join(out, "result.json")))
        n = sum(g["count"] for g in res.get("divergences", []))
        print("replay: %d divergence(s) reproduced" % n)
        return 1 if n else 0


class C17(Prop):
    cmd = "c17"
    rule = ("exhaustive enumeration of columns 1..16384 and all 18278 one-to-three-letter names; rows 1..1048576 "
            "(thorough: every row; quick: stride 61 per shard) x 9 boundary columns x lock combinations; random range shapes and "
            "legal sheet names; distinct = distinct (check class, input) pairs counted by hash")
    assumptions = ["oracle: bijective base-26 arithmetic written independently of helper::coordinate",
                   "legal sheet names = Excel's rules (no : \\ / ? * [ ], no leading/trailing apostrophe, <= 31 chars)"]

    def post(self, v, res, out, tier, seed):
        v.exhaustive = bool(res.get("exhaustive_columns_and_names")) and tier == "thorough"
        v.extra["exhaustive_columns_and_names"] = bool(res.get("exhaustive_columns_and_names"))
        v.extra["row_stride"] = res.get("row_stride")


class C18(Prop):
    cmd = "c18"
    rule = ("every day 1900-01-01..9999-12-31 at 3 (quick) / 4 (thorough) times of day incl. one random second, every second of "
            "6 (quick) / 40 (thorough) boundary days; formatted value on a 1/97 stride plus century leap boundaries; distinct = (date,time) pairs")
    assumptions = ["oracle: days-from-civil arithmetic (proleptic Gregorian) + the 1900 leap-day offset, independent of chrono and of the library",
                   "serial compared with tolerance 1e-9 day (two-step float rounding in either implementation is not a violation)"]

    def post(self, v, res, out, tier, seed):
        v.exhaustive = bool(res.get("exhaustive_days"))
        v.extra["total_days"] = res.get("total_days")


class C19(Prop):
    cmd = "c19"
    cases = {"quick": 40000, "thorough": 3000000}
    rule = ("decimal strings with <= 15 significant digits (9-chains, ties, zeros after the point, magnitudes 1e-7..1e15, negatives) x "
            "19 patterns, through Cell::get_formatted_value and to_formatted_string; every built-in format id x 14 numbers; text under "
            "General; distinct = distinct (bits, pattern, path) triples")
    assumptions = ["oracle: Python decimal, Decimal(repr(x)).quantize(ROUND_HALF_UP) on the magnitude, sign kept, grouping by 3",
                   "the sign of a negative number is kept also when the rounded magnitude is zero ('-0.00'), as the property states"]

    def post(self, v, res, out, tier, seed):
        sys.path.insert(0, os.path.join(vlib.VERIF, "monitors"))
        import decfmt
        n, distinct, counters, divs = decfmt.check_rows(out)
        v.evaluations = n
        v.distinct = distinct
        v.observations = n
        v.counters = counters
        for sig, (cnt, exs) in divs.items():
            for e in exs:
                e.update({"cmd": "c19", "seed": seed, "case": 0})
            v.add_divergence(sig, [], cnt, exs)


class C20(Prop):
    cmd = "c20"
    cases = {"quick": 1200, "thorough": 600000}
    rule = ("random sparse sheets (1-3 sheets, any active tab, gaps, text with commas / quotes / CR / LF / CRLF / tabs / padding / "
            "per-encoding non-ASCII text, numbers, booleans) x all 60 option combinations (10 encodings x trim x wrap none/\"/'); "
            "distinct = distinct (options, grid) by content hash")
    assumptions = ["oracle: Python codecs for the byte decoding, own RFC-4180 parser (delimiter ',', quote = wrap character, or '\"' when none is configured)",
                   "non-ASCII test text per legacy encoding is limited to characters on which Python's tables and WHATWG agree",
                   "trim expectation uses Rust's White_Space set"]

    def post(self, v, res, out, tier, seed):
        sys.path.insert(0, os.path.join(vlib.VERIF, "monitors"))
        import csv4180
        n, counters, divs = csv4180.check(out)
        v.counters.update(counters)
        v.observations = n
        for (sig, feats), (cnt, exs) in divs.items():
            v.add_divergence(sig, list(feats), cnt, exs)


class C01(Prop):
    cmd = "c01"
    cases = {"quick": 1500, "thorough": 150000}
    rule = ("random workbooks (1-4 hostile sheet names; dense, sparse and grid-edge positions up to XFD1048576; text from a hostile "
            "alphabet incl. XML specials, padding, CR/LF, non-BMP, escape look-alikes, 32767-char strings, duplicates; rich text; random-bit "
            "f64, subnormals, 15-17 digit decimals; booleans; all 7 errors; formulas with cached results of every kind) saved with "
            "both writers and reloaded; non-trivial = more than 4 dump entries; distinct by hash of the pre-save dump")
    assumptions = ["oracle: the pre-save public-getter dump of the same workbook (kind, value text, f64 bits, formula, rich runs)",
                   "characters XML 1.0 cannot carry are generated only in segregated workbooks (feature xml-illegal-chars)",
                   "a formula cell is cleared before the formula is set (no formula with a rich-text result)"]


class C05(Prop):
    cmd = "c05"
    cases = {"quick": 800, "thorough": 60000}
    rule = ("1-400 styles per workbook from the product of font/fill/border/alignment/number-format/protection attributes, near-duplicate "
            "families differing in one attribute and adjacent-field collision candidates, assigned to cells, rectangular ranges, rows and "
            "columns (runs of equal columns, runs broken by one attribute); 3 save/load generations; distinct by hash of the pre-save dump")
    assumptions = ["oracle: effective-style dump before save vs after reload (None components resolved to the workbook default)",
                   "style-table sizes read from xl/styles.xml by a scanner that shares no code with the library; growth = gen3 > gen2 or gen2 > gen1+1"]


class C06(Prop):
    cmd = "c06"
    cases = {"quick": 800, "thorough": 40000}
    rule = ("1-6 sheets with hostile names, hidden/veryHidden, add/remove/rename before saving, active tab anywhere (also chosen before a "
            "removal); per sheet 0-5 (1 in 5 workbooks: 0-40) merges, hyperlinks, comments, validations, conditional formats, defined "
            "names, plus auto-filter, tab colour, panes, page setup, header/footer, protection; every payload carries a unique id; each "
            "workbook is saved 3 times (hash-seed dependent pairing); distinct by hash of the pre-save dump")
    assumptions = ["oracle: annotation dump before save vs after reload, keyed by cell / range / name",
                   "hyperlink tooltip is not compared (the statement speaks of cell and target only; the library never persists it)",
                   "defined names are compared as (scope, name) -> refers-to, whichever collection (workbook or sheet) holds them"]


class C02(Prop):
    cmd = "c02"
    level = "exploration"
    cases = {"quick": 400, "thorough": 10000}
    rule = ("generated workbooks combining the C01 cell generator, random styles on cells/rows/columns, the C06 annotation generator, "
            "tables and an optional macro payload, saved with the standard or light writer, plus every non-empty corpus file re-saved by "
            "the library; non-trivial = more than 8 dump entries; distinct by hash of the pre-save dump")
    assumptions = ["oracle: monitors/xlsx_validate.py (OPC + SpreadsheetML constraints named in the property) and monitors/xlsx_decode.py (zipfile + expat), compared with the pre-save public-getter dump",
                   "formulas of shared-formula children in corpus re-saves are not compared here (C03 compares the reader's expansion)",
                   "ST_Xstring _xHHHH_ escapes are decoded by the independent reader, as the standard prescribes"]

    def post(self, v, res, out, tier, seed):
        sys.path.insert(0, os.path.join(vlib.VERIF, "monitors"))
        import c02_check
        n, totals, groups = c02_check.check(out)
        v.observations += sum(totals.values())
        for k, val in totals.items():
            v.counters["decoded." + k] = val
        v.counters["files_checked"] = n
        if n == 0:
            raise vlib.Inconclusive("no file was produced")
        for (sig, feats), (cnt, exs) in groups.items():
            v.add_divergence(sig, list(feats), cnt, exs)


class C04(Prop):
    cmd = "c04"
    cases = {"quick": 120, "thorough": 3000}
    grammar_files = {"quick": 200, "thorough": 3000}
    rule = ("every non-empty corpus file, files written by the grammar-based generator gen/xlsxgen.py (shared formulas, inline strings, tables, ...) and workbooks built through the API "
            "(C02 generator): two saves of the unchanged object, three load/save generations (standard and light writer), one single-cell edit on the loaded workbook, "
            "aimed at shared-formula members / formula cells / existing cells / new cells; distinct by hash of the original's dump")

    def run(self, v, tier, seed):
        sys.path.insert(0, os.path.join(vlib.VERIF, "monitors"))
        sys.path.insert(0, os.path.join(vlib.VERIF, "gen"))
        import xlsxgen, xlsx_validate
        out = vlib.workdir(self.cmd)
        lst = os.path.join(out, "grammar-files.txt")
        with open(lst, "w") as f:
            for i in range(self.grammar_files[tier]):
                sd = seed * 7919 + i
                data, _intent = xlsxgen.generate(sd)
                if xlsx_validate.validate(data):
                    continue
                p = os.path.join(out, "grammar-%d.xlsx" % sd)
                open(p, "wb").write(data)
                f.write(p + "\n")
        res = vlib.run_uvh(self.cmd, out, seed, tier, self.cases.get(tier), extra={"list": lst})
        v.add_result(res)
        v.rule = self.rule
        v.assumptions = list(self.assumptions)
        self.post(v, res, out, tier, seed)
    assumptions = ["oracle: strict equality of the full public-getter dumps of successive generations; orig~gen1 under the documented normal form "
                   "(font None vs Some is a wildcard because None means 'font 0 of that file'; a column entry carrying only the default width is not a setting)",
                   "'same parts and same content' for two consecutive saves = equal part lists and equal dumps after loading each file (byte order of order-insensitive tables may differ)",
                   "a new cell created by the edit may take the formatting of its row/column"]


class C12(Prop):
    cmd = "c12"
    cases = {"quick": 2000, "thorough": 120000}
    rule = ("histories of 4-30 operations over up to 4 workbook objects (set / overwrite / delete text and rich text, remove rows, columns, "
            "sheets, clone, reload-and-continue, save with either writer); every string carries a unique id; non-trivial = at least one save; "
            "distinct by hash of the history")
    assumptions = ["oracle: shared string table and str/inline cell texts read by monitors/xlsx_decode.py vs the text / rich-text values reachable through getters at save time"]

    def post(self, v, res, out, tier, seed):
        sys.path.insert(0, os.path.join(vlib.VERIF, "monitors"))
        import c12_check
        n, strings, groups = c12_check.check(out)
        v.observations = n
        v.counters["files_checked"] = n
        v.counters["stored_strings_checked"] = strings
        for sig, (cnt, exs) in groups.items():
            v.add_divergence(sig, [], cnt, exs)


class Guarded(Prop):
    """properties whose subject code may loop or exhaust memory: run under the case-level watchdog"""
    budget = {"quick": 90, "thorough": 2400}

    def run(self, v, tier, seed):
        out = vlib.workdir(self.cmd)
        res, extra = vlib.run_uvh_guarded(self.cmd, out, seed, tier, self.cases[tier], self.budget[tier])
        v.add_result(res)
        for e in extra:
            v.add_divergence(e["sig"], e["features"], 1, [e])
        v.rule = self.rule
        v.assumptions = list(self.assumptions)


class C07(Prop):
    cmd = "c07"
    cases = {"quick": 1500, "thorough": 1500000}
    rule = ("1-3 sheets with 5-30 cells (unique tokens, constant formulas, hyperlinks, a font-size style tag), merges, conditional-format "
            "ranges, auto-filter, comments, row heights, column widths; 1 in 6 workbooks placed next to XFD1048576; histories of 1-40 "
            "operations (insert/remove rows/columns at workbook and sheet level with p at the first line / inside / right behind the "
            "content, move_range, copy_range, set/remove cell); compared after every operation on every sheet; distinct by hash of history + final model")
    assumptions = ["oracle: reference grid in the harness (insert shifts everything at/after p; remove deletes what lies in the band, clamps a rectangle corner "
                   "inside the band to its edge and deletes a rectangle wholly inside it; move = clear destination and source, place source cells; copy = overlay non-blank source cells)",
                   "only in-range arguments: an insert that would push content past XFD/1048576 is not generated",
                   "column entries with a width below 20 and unstyled empty cells are by-products, not content"]


class C08(Guarded):
    cmd = "c08"
    cases = {"quick": 12000, "thorough": 2000000}
    rule = ("3-8 formulas per workbook generated from an AST grammar (depth 1-4: operators, unary signs, percent, nested functions, unions, "
            "intersections, literals, relative/absolute/mixed references, ranges, whole rows/columns, qualified and quoted qualifiers, names, "
            "array constants, structured and external references) plus 0-3 defined names, on 3-4 sheets; 1-6 workbook-level inserts/removes; "
            "each workbook uses the base grammar plus at most two extra features (feature segregation); distinct by hash of formulas + history")
    assumptions = ["oracle: AST-level reference shifter in the harness; expected text rendered from the AST and compared modulo blanks adjacent to operators / separators / parentheses",
                   "'Sheet!#REF!' and '#REF!' are both accepted for a deleted qualified target; a defined name whose whole target was removed may also have an empty refers-to or be dropped",
                   "defined-name addresses are compared modulo optional quoting of the qualifier; chart series are not exercised",
                   "unless the workbook carries the feature 'deleted-target-allowed' removed bands never contain a reference corner"]


class C09(Guarded):
    cmd = "c09"
    cases = {"quick": 20000, "thorough": 5000000}
    rule = ("one formula per case from the C08 AST grammar (depth 1-6, base grammar plus at most two extra features; half of the cases with references "
            "at the grid limits); identity through set_formula + set_coordinate(same), through an insert/remove that concerns none of its references, "
            "and two translations (dc, dr) incl. moves to the grid corners; distinct by formula text")
    assumptions = ["oracle: AST renderer / AST translator (non-$ parts move, leaving the grid gives #REF!) compared modulo blanks adjacent to operators",
                   "external references are exercised on the identity paths only (relative external references do move under translation and the generator models them as opaque text)"]


class C10(Prop):
    cmd = "c10"
    cases = {"quick": 3000, "thorough": 800000}
    rule = ("histories of 1-60 operations on one sheet (dense 6x7 or sparse 14x16 area): get_cell_mut with and without a value, set_cell, remove_cell, set_style, "
            "set_style_by_range (rectangular), insert/remove rows and columns, move/copy range, cleanup, copy_row/col_styling; all invariants evaluated after every "
            "operation, exactly-once emission checked on the saved sheet XML after every 4th; distinct by hash of the history")
    assumptions = ["oracle: brute-force scan of get_collection_to_hashmap vs every other public view of the store",
                   "whole-row / whole-column forms of set_style_by_range are not used (they panic before touching the store, see KF-C17)",
                   "histories stay inside rows 1-60 and columns 1-30: the store is not observed above row 16384 (edits and bounds getters cost time proportional to the highest row; seeded change C10i is not seen)"]


class C14(Prop):
    cmd = "c14"
    cases = {"quick": 96, "thorough": 2400}
    rule = ("passwords (empty, ASCII, BMP, non-BMP, 255 chars, random printable) x package sizes (0, 1, 15-17, 31-33, 4095-4097, 8191-8193, n*4096 +/- 1, random up to 70 kB) "
            "through helper::crypt::encrypt and set_password (arbitrary bytes), and real workbooks through write_with_password(_light) incl. two saves of one workbook; distinct by (api, password, case)")
    assumptions = ["oracle: monitors/offcrypto.py (own CFB reader, own AES-CBC, hashlib SHA-512 / HMAC; MS-OFFCRYPTO 2.3.4.10-15)",
                   "for workbook saves the plaintext reference is write_writer's output for the same workbook (compared byte-wise, or member-wise when zip bytes differ)",
                   "freshness: key salt, package salt, package key and verifier input must be pairwise distinct over all files of the run"]

    def post(self, v, res, out, tier, seed):
        sys.path.insert(0, os.path.join(vlib.VERIF, "monitors"))
        import c14_check
        n, nsizes, randoms, groups = c14_check.check(out)
        v.observations = n
        v.counters["files_decrypted"] = n
        v.counters["distinct_package_sizes"] = nsizes
        for k, val in randoms.items():
            v.counters["distinct_" + k] = val
        for sig, (cnt, exs) in groups.items():
            v.add_divergence(sig, [], cnt, exs)


class C15(Prop):
    cmd = "c15"
    cases = {"quick": 120, "thorough": 3000}
    rule = ("passwords (empty, ASCII, non-BMP, CJK, 240+ chars, XML specials) x sheet / workbook / revisions protection, on fresh objects and on objects that carried a legacy raw password, "
            "one or two calls, observed in the model and after a save/reload cycle; distinct by (kind, password, case)")
    assumptions = ["oracle: hashlib recomputation of the ECMA-376 spin hash; byte scan of every saved part for legacy password attributes and (for passwords of 8+ chars) the clear password in UTF-8 / UTF-16LE"]

    def post(self, v, res, out, tier, seed):
        sys.path.insert(0, os.path.join(vlib.VERIF, "monitors"))
        import c15_check
        n, nsalts, groups = c15_check.check(out)
        v.observations = n
        v.counters["hashes_recomputed"] = 2 * n
        v.counters["distinct_salts"] = nsalts
        for sig, (cnt, exs) in groups.items():
            v.add_divergence(sig, [], cnt, exs)


class C13(Prop):
    level = "fault_enumeration"
    rule = ("fault points = (api in xlsx / xlsx_light / csv / password) x (workbook size tiny / small / edge-of-8KiB / large) x (EFBIG at byte offset k via RLIMIT_FSIZE: every "
            "offset for outputs <= 12 kB in the thorough tier, boundaries + random sample otherwise; LD_PRELOAD shim failing the j-th write with ENOSPC/EIO/EDQUOT with and without a "
            "short write, rename, open) x (destination pre-existing / absent); plus every write-call index of caller-supplied sinks (with/without partial progress), SIGKILL at random "
            "instants of alternating saves, and a concurrent reader of the destination; distinct = distinct (api, size, injector, point, pre-existing)")
    assumptions = ["oracle: outcome classifier (reported result, destination bytes vs old bytes / byte-identical healthy new file, decrypt check for password files)",
                   "a leftover temporary sibling after a failure is counted but is not a violation",
                   "kill instants and observer reads are samples, not an enumeration"]

    def run(self, v, tier, seed):
        sys.path.insert(0, os.path.join(vlib.VERIF, "monitors"))
        import c13_check
        out = vlib.workdir("c13")
        res = vlib.run_uvh("c13sink", os.path.join(out, "sink"), seed, tier)
        v.add_result(res, prefix="sink.")
        try:
            cx = c13_check.check(out, tier, seed)
        except RuntimeError as e:
            raise vlib.Inconclusive(str(e))
        v.evaluations += cx.points
        v.observations += cx.points
        v.distinct += len(cx.distinct)
        v.counters.update(cx.counters)
        v.samples = cx.samples + v.samples
        v.inconclusive += [{"why": w} for w in cx.inconclusive]
        v.inconclusive_count += len(cx.inconclusive)
        for sig, (cnt, exs) in cx.groups.items():
            v.add_divergence(sig, [], cnt, exs)
        v.rule = self.rule
        v.assumptions = list(self.assumptions)

    def replay(self, path):
        sys.path.insert(0, os.path.join(vlib.VERIF, "monitors"))
        import c13_check
        ex = json.load(open(path))
        cx = c13_check.replay(vlib.workdir("c13-replay"), ex.get("replay_fault", {}))
        n = sum(c for c, _ in cx.groups.values())
        for sig, (cnt, exs) in cx.groups.items():
            print(sig, exs[0]["detail"])
        print("replay: %d divergence(s) reproduced" % n)
        return 1 if n else 0


class C16(Prop):
    cmd = "c16"
    rule = ("controlled schedules at the hook yield points (before every shared-string registration, before the table dump, save begin/end), one child process per configuration: "
            "exhaustive DFS over all interleavings of 2 savers x 1..3 (thorough: 5) strings for equal / disjoint / overlapping string sets, one workbook shared by reference, and lazily opened "
            "workbooks with a never-deserialized sheet (shared and cloned), both writers; 3 savers x 1 string exhaustively in thorough (bounded DFS prefix in quick and for 2 strings); "
            "seeded random/priority schedules for 2-3 savers x 2-8 strings; free-running stress; thorough adds the same stress under ThreadSanitizer and under Miri (8 seeds); "
            "distinct = distinct interleavings (sequence of saver ids granted a step, per configuration)")
    assumptions = ["oracle: text cells and string table of every output, read from the file by a scanner without library code, equal the solo content of that workbook; per-saver index conservation on the hook log",
                   "yield points sit outside every lock region (hook arguments are computed into locals first), so parking cannot manufacture a deadlock; 'no quiescence within 20 s' is reported as inconclusive, not as deadlock",
                   "ThreadSanitizer / Miri reports fail the run; if those toolchains cannot build, the stage is recorded as unavailable and the verdict rests on the controlled schedules"]

    def post(self, v, res, out, tier, seed):
        v.extra["distinct_interleavings"] = res.get("distinct_interleavings")
        v.exhaustive = False
        v.extra["exhaustive_small_configurations"] = bool(res.get("exhaustive_small_configurations"))
        if tier != "thorough":
            return
        env = dict(os.environ, CARGO_NET_OFFLINE="true")
        hdir = os.path.join(vlib.VERIF, "harness")
        # ThreadSanitizer: needs -Zbuild-std (ABI mismatch otherwise)
        tdir = os.path.join(vlib.TARGET, "tsan")
        b = subprocess.run(["cargo", "+nightly", "build", "--offline", "-Zbuild-std", "--target", "x86_64-unknown-linux-gnu", "--target-dir", tdir], cwd=hdir,
                           env=dict(env, RUSTFLAGS="-Zsanitizer=thread --cfg umya_verif"), stdout=subprocess.PIPE, stderr=subprocess.STDOUT, text=True)
        if b.returncode != 0:
            v.extra["tsan"] = "unavailable: build failed"
            vlib.log(b.stdout[-1500:])
        else:
            try:
                r = subprocess.run([os.path.join(tdir, "x86_64-unknown-linux-gnu", "debug", "uvh"), "c16stress", "--rounds", "4000", "--seed", str(seed)],
                                   env=dict(env, TSAN_OPTIONS="halt_on_error=1 exitcode=66"), stdout=subprocess.PIPE, stderr=subprocess.PIPE, text=True, timeout=3000)
            except subprocess.TimeoutExpired:
                r = None
            if r is None:
                v.extra["tsan"] = "unavailable: did not finish within 3000 s on this machine"
                r = subprocess.CompletedProcess([], 0, "", "")
            else:
                v.extra["tsan"] = {"rounds": 4000, "exit": r.returncode, "stdout": r.stdout[-300:]}
                v.evaluations += 4000
            if r.returncode == 66 or "ThreadSanitizer" in r.stderr:
                v.add_divergence("tsan-report", [], 1, [{"cmd": "c16stress", "seed": seed, "case": 0, "sig": "tsan-report", "features": [], "detail": r.stderr[-1500:]}])
            elif r.returncode != 0:
                v.add_divergence("stress-divergence-under-tsan", [], 1, [{"cmd": "c16stress", "seed": seed, "case": 0, "sig": "stress-divergence-under-tsan", "features": [], "detail": r.stdout[-1500:]}])
        # Miri: data-race / UB interpreter, tiny workload, several scheduler seeds
        try:
            r = subprocess.run(["cargo", "+nightly", "miri", "run", "--offline", "--target-dir", os.path.join(vlib.TARGET, "miri"), "--", "c16stress", "--rounds", "2", "--maxk", "2", "--light-only", "1", "--modes", "4", "--seed", str(seed)],
                               cwd=hdir, env=dict(env, RUSTFLAGS="--cfg umya_verif", MIRIFLAGS="-Zmiri-disable-isolation -Zmiri-many-seeds=0..8"), stdout=subprocess.PIPE, stderr=subprocess.PIPE, text=True, timeout=2400)
        except subprocess.TimeoutExpired:
            # a stage that does not finish in its wall-clock budget decides nothing (never a violation)
            v.extra["miri"] = {"note": "unavailable: did not finish within 2400 s on this machine"}
            return
        ok = r.returncode == 0
        v.extra["miri"] = {"seeds": 8, "rounds_per_seed": 2, "exit": r.returncode, "note": "workbooks built in memory only: lazily opened workbooks are left out (package reading is too slow under Miri)"}
        if "Undefined Behavior" in r.stderr or "Data race" in r.stderr or "data race" in r.stderr:
            v.add_divergence("miri-report", [], 1, [{"cmd": "c16stress", "seed": seed, "case": 0, "sig": "miri-report", "features": [], "detail": r.stderr[-1500:]}])
        elif not ok:
            if "DIVERGENCE" in r.stdout:
                v.add_divergence("stress-divergence-under-miri", [], 1, [{"cmd": "c16stress", "seed": seed, "case": 0, "sig": "stress-divergence-under-miri", "features": [], "detail": r.stdout[-1500:]}])
            else:
                v.extra["miri"]["note"] = "unavailable or failed to run: " + r.stderr[-300:]
        else:
            v.evaluations += 16


def _validate_one(path):
    sys.path.insert(0, os.path.join(vlib.VERIF, "monitors"))
    import xlsx_validate
    try:
        return path, [(c, m[:300]) for c, m in xlsx_validate.validate(path)]
    except Exception as e:
        return path, [("validator-error", repr(e)[:300])]


class C11(Prop):
    cmd = "c11"
    cases = {"quick": 150, "thorough": 6000}
    rule = ("every non-empty corpus file (5 histories each, thorough 15; the first three fixed: add / remove / rename a sheet), multi-sheet files of the grammar-based generator (indented XML, apostrophe-quoted attributes, shared formulas, ...) "
            "and generated multi-sheet workbooks (C02 generator: cross-sheet shared strings, styles, hyperlinks, comments, tables, charts); "
            "histories of 1-10 operations over read_sheet, read_sheet_by_name, get_sheet_mut, get_sheet_by_name_mut, read_sheet_collection, cell edits, new_sheet, remove_sheet, set_sheet_name, "
            "workbook-level insert/remove, applied identically to a lazily and an eagerly opened workbook; distinct by hash of (file, history)")
    assumptions = ["oracle: the eagerly loaded workbook subjected to the same history (differential); accessed sheets are compared after every operation, the two saved results after reloading both eagerly",
                   "files saved from the lazy workbook are checked by monitors/xlsx_validate.py",
                   "an operation that fails on both workbooks alike ends the history (not a lazy/eager difference)"]

    grammar_files = {"quick": 80, "thorough": 2000}

    def run(self, v, tier, seed):
        sys.path.insert(0, os.path.join(vlib.VERIF, "monitors"))
        sys.path.insert(0, os.path.join(vlib.VERIF, "gen"))
        import xlsxgen, xlsx_validate
        out = vlib.workdir(self.cmd)
        lst = os.path.join(out, "grammar-files.txt")
        with open(lst, "w") as f:
            for i in range(self.grammar_files[tier]):
                sd = seed * 104729 + i
                data, intent = xlsxgen.generate(sd)
                # lazy loading matters for files with several sheets
                if len(intent["sheets"]) < 2 or xlsx_validate.validate(data):
                    continue
                p = os.path.join(out, "grammar-%d.xlsx" % sd)
                open(p, "wb").write(data)
                f.write(p + "\n")
        res = vlib.run_uvh(self.cmd, out, seed, tier, self.cases.get(tier), extra={"list": lst})
        v.add_result(res)
        v.rule = self.rule
        v.assumptions = list(self.assumptions)
        self.post(v, res, out, tier, seed)

    def post(self, v, res, out, tier, seed):
        from multiprocessing import Pool
        files = [json.loads(l) for l in open(os.path.join(out, "files.jsonl"), encoding="utf-8")]
        with Pool(16) as pool:
            results = dict(pool.map(_validate_one, [os.path.join(out, f["file"]) for f in files], chunksize=4))
        v.counters["lazy-saved-files-validated"] = len(files)
        groups = {}
        for f in files:
            for cls, msg in results[os.path.join(out, f["file"])]:
                sig = "lazy-output-invalid:" + cls + ("@" + f["origin"] if f["origin"] != "generated" else "")
                e = groups.setdefault(sig, [0, []])
                e[0] += 1
                if len(e[1]) < 3:
                    e[1].append({"cmd": "c11", "seed": f["seed"], "case": f["case"], "sig": sig, "features": [], "detail": "%s after %s: %s" % (f["origin"], f["history"], msg)})
        for sig, (cnt, exs) in groups.items():
            v.add_divergence(sig, [], cnt, exs)


class C03(Prop):
    cmd = "c03"
    cases = {"quick": 300, "thorough": 10000}
    rule = ("files written by gen/xlsxgen.py (grammar over the file: t = s / str / inlineStr / b / e / n / absent, rich and phonetic strings, shared-formula blocks with masters and children at all offsets incl. "
            "references before the master and $-locked parts, formulas with cached results of every kind, xml:space, entities and character references in text and in every attribute channel incl. table columns, "
            "optional row/col attributes, cellXfs resolution incl. <numFmts> entries that redefine built-in ids) and every "
            "non-empty corpus file; distinct = distinct files")
    assumptions = ["oracle for generated files: the intent recorded by the generator (formulas rendered from its AST); every generated file must also pass our own validator and agree with our own decoder, otherwise it is set aside as a generator problem (inconclusive)",
                   "oracle for corpus files: monitors/xlsx_decode.py; shared-formula children whose master the conservative shifter cannot tokenise are inconclusive cells",
                   "formulas are compared modulo blanks adjacent to operators; an empty cached string and a blank cached value are one class; defined-name qualifiers modulo optional quoting; xf resolution only where apply* is absent or 1"]

    def run(self, v, tier, seed):
        sys.path.insert(0, os.path.join(vlib.VERIF, "monitors"))
        sys.path.insert(0, os.path.join(vlib.VERIF, "gen"))
        import c03_check, xlsxgen, xlsx_validate, glob
        out = vlib.workdir("c03")
        n = self.cases[tier]
        seeds = [seed * 1000003 + i for i in range(n)]
        good = []
        for sd in seeds:
            data, intent = xlsxgen.generate(sd)
            if xlsx_validate.validate(data):
                v.inconclusive.append({"why": "generated file %d fails our own validator" % sd})
                v.inconclusive_count += 1
                continue
            open(os.path.join(out, "gen-%d.xlsx" % sd), "wb").write(data)
            good.append(sd)
            for ft in intent["features"]:
                v.features[ft] = v.features.get(ft, 0) + 1
        corpus = sorted(p for p in glob.glob("/repo/tests/test_files/*.xls[xm]") if os.path.getsize(p) > 0)
        with open(os.path.join(out, "list.txt"), "w") as f:
            for sd in good:
                f.write(os.path.join(out, "gen-%d.xlsx" % sd) + "\n")
            for p in corpus:
                f.write(p + "\n")
        res = vlib.run_uvh("c03", out, seed, tier, extra={"list": os.path.join(out, "list.txt")})
        v.add_result(res)
        dumps = {}
        for line in open(os.path.join(out, "dumps.jsonl"), encoding="utf-8"):
            r = json.loads(line)
            dumps[r["file"]] = r
        totals, groups, issues = c03_check.check(out, good, corpus, dumps)
        for k, val in totals.items():
            v.counters["compared." + k] = val
        v.counters["generated_files"] = len(good)
        v.counters["corpus_files"] = len(corpus)
        v.observations = sum(totals.values())
        for i in issues:
            v.inconclusive.append({"why": "oracle self-check: " + i[:300]})
            v.inconclusive_count += 1
        for (sig, feats), (cnt, exs) in groups.items():
            v.add_divergence(sig, list(feats), cnt, exs)
        v.rule = self.rule
        v.assumptions = list(self.assumptions)


PROPS = {"C03": C03(), "C11": C11(), "C16": C16(), "C13": C13(), "C15": C15(), "C14": C14(), "C07": C07(), "C08": C08(), "C09": C09(), "C10": C10(), "C04": C04(), "C12": C12(), "C02": C02(), "C01": C01(), "C05": C05(), "C06": C06(), "C20": C20(), "C19": C19(), "C17": C17(), "C18": C18()}
