"""Per-property wiring: which harness commands / Python monitors decide each property."""
import json, os, subprocess, sys
import vlib


class Prop:
    level = "exploration"
    cmd = None          # uvh command
    cases = {"quick": None, "thorough": None}
    rule = ""
    assumptions = []

    def run(self, v, tier, seed):
        out = vlib.workdir(self.cmd)
        res = vlib.run_uvh(self.cmd, out, seed, tier, self.cases.get(tier))
        v.add_result(res)
        v.rule = self.rule
        v.assumptions = list(self.assumptions)
        self.post(v, res, out, tier, seed)

    def post(self, v, res, out, tier, seed):
        pass

    def replay(self, path):
        ex = json.load(open(path))
        out = vlib.workdir("replay")
        argv = [vlib.UVH, ex["cmd"], "--out", out, "--seed", str(ex["seed"]), "--case", str(ex["case"]), "--tier", ex.get("tier", "quick")]
        for k, val in (ex.get("extra") or {}).items():
            argv += ["--" + k, str(val)]
        p = subprocess.run(argv, text=True)
        res = json.load(open(os.path.join(out, "result.json")))
        n = sum(g["count"] for g in res.get("divergences", []))
        print("replay: %d divergence(s) reproduced" % n)
        return 1 if n else 0


class C17(Prop):
    cmd = "c17"
    rule = ("exhaustive enumeration of columns 1..16384 and all 18278 one-to-three-letter names; rows 1..1048576 "
            "(thorough: every row; quick: stride 61 per shard) x 9 boundary columns x lock combinations; random range shapes and "
            "legal sheet names; distinct = distinct (check class, input) pairs counted by hash")
    assumptions = ["oracle: bijective base-26 arithmetic written independently of helper::coordinate",
                   "legal sheet names = Excel's rules (no : \\ / ? * [ ], no leading/trailing apostrophe, <= 31 chars)"]

    def post(self, v, res, out, tier, seed):
        v.exhaustive = bool(res.get("exhaustive_columns_and_names")) and tier == "thorough"
        v.extra["exhaustive_columns_and_names"] = bool(res.get("exhaustive_columns_and_names"))
        v.extra["row_stride"] = res.get("row_stride")


class C18(Prop):
    cmd = "c18"
    rule = ("every day 1900-01-01..9999-12-31 at 3 (quick) / 4 (thorough) times of day incl. one random second, every second of "
            "6 (quick) / 40 (thorough) boundary days; formatted value on a 1/97 stride plus century leap boundaries; distinct = (date,time) pairs")
    assumptions = ["oracle: days-from-civil arithmetic (proleptic Gregorian) + the 1900 leap-day offset, independent of chrono and of the library",
                   "serial compared with tolerance 1e-9 day (two-step float rounding in either implementation is not a violation)"]

    def post(self, v, res, out, tier, seed):
        v.exhaustive = bool(res.get("exhaustive_days"))
        v.extra["total_days"] = res.get("total_days")


class C19(Prop):
    cmd = "c19"
    cases = {"quick": 40000, "thorough": 1500000}
    rule = ("decimal strings with <= 15 significant digits (9-chains, ties, zeros after the point, magnitudes 1e-7..1e15, negatives) x "
            "19 patterns, through Cell::get_formatted_value and to_formatted_string; every built-in format id x 14 numbers; text under "
            "General; distinct = distinct (bits, pattern, path) triples")
    assumptions = ["oracle: Python decimal, Decimal(repr(x)).quantize(ROUND_HALF_UP) on the magnitude, sign kept, grouping by 3",
                   "for a negative number whose rounded magnitude is zero both '-0.00' and '0.00' are accepted"]

    def post(self, v, res, out, tier, seed):
        sys.path.insert(0, os.path.join(vlib.VERIF, "monitors"))
        import decfmt
        n, distinct, counters, divs = decfmt.check_rows(out)
        v.evaluations = n
        v.distinct = distinct
        v.observations = n
        v.counters = counters
        for sig, (cnt, exs) in divs.items():
            for e in exs:
                e.update({"cmd": "c19", "seed": seed, "case": 0})
            v.add_divergence(sig, [], cnt, exs)


class C20(Prop):
    cmd = "c20"
    cases = {"quick": 1200, "thorough": 30000}
    rule = ("random sparse sheets (1-3 sheets, any active tab, gaps, text with commas / quotes / CR / LF / CRLF / tabs / padding / "
            "per-encoding non-ASCII text, numbers, booleans) x all 60 option combinations (10 encodings x trim x wrap none/\"/'); "
            "distinct = distinct (options, grid) by content hash")
    assumptions = ["oracle: Python codecs for the byte decoding, own RFC-4180 parser (delimiter ',', quote = wrap character, or '\"' when none is configured)",
                   "non-ASCII test text per legacy encoding is limited to characters on which Python's tables and WHATWG agree",
                   "trim expectation uses Rust's White_Space set"]

    def post(self, v, res, out, tier, seed):
        sys.path.insert(0, os.path.join(vlib.VERIF, "monitors"))
        import csv4180
        n, counters, divs = csv4180.check(out)
        v.counters.update(counters)
        v.observations = n
        for (sig, feats), (cnt, exs) in divs.items():
            v.add_divergence(sig, list(feats), cnt, exs)


PROPS = {"C20": C20(), "C19": C19(), "C17": C17(), "C18": C18()}
