"""Driver library: build the harness against /repo's working tree, run monitors, classify
divergences against known_findings.json, write evidence, print verdict lines."""
import json, os, re, shutil, subprocess, sys, time, hashlib

VERIF = os.path.dirname(os.path.dirname(os.path.abspath(__file__)))
REPO = "/repo"
TARGET = os.path.join(VERIF, "target")
WORK = os.path.join(VERIF, "work")
UVH = os.path.join(TARGET, "debug", "uvh")
ENV = dict(os.environ, CARGO_NET_OFFLINE="true", RUSTFLAGS="--cfg umya_verif")


class Inconclusive(Exception):
    pass


def log(*a):
    print(*a, file=sys.stderr, flush=True)


def build_harness():
    """(Re)build uvh from /repo's current working tree with hooks on. cargo is incremental; a
    file lock serialises concurrent checks."""
    import fcntl
    os.makedirs(TARGET, exist_ok=True)
    lock = open(os.path.join(TARGET, ".verif-build.lock"), "w")
    fcntl.flock(lock, fcntl.LOCK_EX)
    try:
        src = os.path.join(REPO, "Cargo.lock")
        dst = os.path.join(VERIF, "harness", "Cargo.lock")
        if not os.path.exists(dst):
            shutil.copyfile(src, dst)
        t0 = time.time()
        p = subprocess.run(["cargo", "build", "--offline", "--target-dir", TARGET],
                           cwd=os.path.join(VERIF, "harness"), env=ENV, stdout=subprocess.PIPE, stderr=subprocess.STDOUT, text=True)
        if p.returncode != 0:
            # stale lock file is the one repairable cause
            shutil.copyfile(src, dst)
            p = subprocess.run(["cargo", "build", "--offline", "--target-dir", TARGET],
                               cwd=os.path.join(VERIF, "harness"), env=ENV, stdout=subprocess.PIPE, stderr=subprocess.STDOUT, text=True)
        if p.returncode != 0:
            log(p.stdout[-6000:])
            raise Inconclusive("harness build failed (does /repo compile?)")
        log("[build] uvh ready in %.1fs" % (time.time() - t0))
    finally:
        fcntl.flock(lock, fcntl.LOCK_UN)
        lock.close()


def workdir(name):
    d = os.path.join(WORK, name)
    shutil.rmtree(d, ignore_errors=True)
    os.makedirs(d)
    return d


def run_uvh(cmd, out, seed, tier, cases=None, extra=None, timeout=7200, env=None):
    argv = [UVH, cmd, "--out", out, "--seed", str(seed), "--tier", tier]
    if cases is not None:
        argv += ["--cases", str(cases)]
    for k, v in (extra or {}).items():
        argv += ["--" + k, str(v)]
    try:
        p = subprocess.run(argv, stdout=subprocess.PIPE, stderr=subprocess.PIPE, text=True, timeout=timeout, env=env)
    except subprocess.TimeoutExpired:
        raise Inconclusive("harness command %s exceeded its %ds watchdog" % (cmd, timeout))
    if p.returncode != 0:
        log(p.stdout[-3000:])
        log(p.stderr[-3000:])
        raise Inconclusive("harness command %s exited with %s" % (cmd, p.returncode))
    with open(os.path.join(out, "result.json")) as f:
        return json.load(f)


def run_uvh_guarded(cmd, out, seed, tier, cases, budget_s, per_case_s=30, mem_gb=24):
    """Run a harness command whose library calls may not terminate or may exhaust memory.
    The harness logs START/END per case; if the run exceeds its (generous) watchdog or dies by a signal, the cases
    that started but never ended are re-run one by one. A case that again fails to finish within `per_case_s`
    (>= 1000x the median case) or aborts again is a deterministic non-termination / abort: it is returned as a
    divergence of the termination clause. Anything else is inconclusive, never a violation."""
    import resource
    prog = os.path.join(out, "progress.log")
    env = dict(os.environ, UVH_PROGRESS=prog)

    def limits():
        resource.setrlimit(resource.RLIMIT_AS, (mem_gb << 30, mem_gb << 30))

    argv = [UVH, cmd, "--out", out, "--seed", str(seed), "--tier", tier, "--cases", str(cases)]
    died = None
    try:
        p = subprocess.run(argv, stdout=subprocess.PIPE, stderr=subprocess.PIPE, text=True, timeout=budget_s, env=env, preexec_fn=limits)
        if p.returncode != 0:
            died = "exit status %s" % p.returncode
    except subprocess.TimeoutExpired:
        died = "watchdog (%ds)" % budget_s
    if died is None:
        with open(os.path.join(out, "result.json")) as f:
            return json.load(f), []
    started, ended = [], set()
    if os.path.exists(prog):
        for line in open(prog):
            w = line.split()
            if len(w) == 2 and w[0] == "START":
                started.append(int(w[1]))
            elif len(w) == 2 and w[0] == "END":
                ended.add(int(w[1]))
    suspects = [k for k in started if k not in ended]
    log("[watchdog] %s: %s; %d suspect case(s): %s" % (cmd, died, len(suspects), suspects[:20]))
    extra = []
    confirmed = 0
    procs = []
    for k in suspects[:16]:
        o2 = os.path.join(out, "suspect-%d" % k)
        os.makedirs(o2, exist_ok=True)
        a2 = [UVH, cmd, "--out", o2, "--seed", str(seed), "--tier", tier, "--case", str(k)]
        procs.append((k, subprocess.Popen(a2, stdout=subprocess.DEVNULL, stderr=subprocess.DEVNULL, preexec_fn=limits)))
    deadline = time.time() + per_case_s
    for k, q in procs:
        why = None
        try:
            rc = q.wait(timeout=max(0.1, deadline - time.time()))
            if rc != 0:
                why = "aborts (exit status %s) when run alone" % rc
        except subprocess.TimeoutExpired:
            q.kill()
            q.wait()
            why = "does not terminate within %ds when run alone (other cases take milliseconds)" % per_case_s
        if why:
            confirmed += 1
            extra.append({"cmd": cmd, "seed": seed, "case": k, "sig": "non-termination-or-abort", "features": [],
                          "detail": "case %d %s; replay with ./check --replay" % (k, why)})
    if not confirmed:
        raise Inconclusive("%s: %s, and no suspect case reproduces it" % (cmd, died))
    # the remaining cases: run again without the offenders is not possible in-process; report what was confirmed
    return {"evaluations": len(started), "observations": 0, "distinct_nontrivial": len(set(started)), "counters": {}, "features": {},
            "samples": [], "divergences": [], "inconclusive": [], "inconclusive_count": 0}, extra


def load_known():
    with open(os.path.join(VERIF, "known_findings.json")) as f:
        return json.load(f)["findings"]


def match_known(prop, sig, features, known):
    for k in known:
        if k.get("status") != "known" or k["property"] != prop:
            continue
        if not re.fullmatch(k["sig"], sig):
            continue
        need = k.get("features_all", [])
        if all(f in features for f in need):
            return k
    return None


class Verdict:
    """Collects what one check run observed."""

    def __init__(self, prop, tier, seed, level):
        self.prop, self.tier, self.seed, self.level = prop, tier, seed, level
        self.t0 = time.time()
        self.evaluations = 0
        self.distinct = 0
        self.observations = 0
        self.counters = {}
        self.features = {}
        self.samples = []
        self.violations = []      # list of example dicts
        self.violation_count = 0
        self.known_seen = {}      # id -> count
        self.inconclusive = []
        self.inconclusive_count = 0
        self.extra = {}
        self.rule = ""
        self.assumptions = []
        self.exhaustive = None
        self.known = load_known()

    def add_result(self, res, prefix=""):
        """Merge a uvh result.json"""
        self.evaluations += res.get("evaluations", 0)
        self.observations += res.get("observations", 0)
        d = res.get("counters", {}).get("distinct_inputs")
        self.distinct += d if d is not None else res.get("distinct_nontrivial", 0)
        for k, v in res.get("counters", {}).items():
            self.counters[prefix + k] = self.counters.get(prefix + k, 0) + v
        for k, v in res.get("features", {}).items():
            self.features[prefix + k] = self.features.get(prefix + k, 0) + v
        for s in res.get("samples", []):
            if len(self.samples) < 6:
                self.samples.append(s)
        self.inconclusive += res.get("inconclusive", [])
        self.inconclusive_count += res.get("inconclusive_count", 0)
        for g in res.get("divergences", []):
            ex = g["examples"][0]
            self.add_divergence(ex["sig"], ex.get("features", []), g["count"], g["examples"])

    def add_divergence(self, sig, features, count, examples):
        k = match_known(self.prop, sig, features, self.known)
        if k is not None:
            e = self.known_seen.setdefault(k["id"], {"count": 0, "what": k["what"], "example": examples[0].get("detail", "")[:300]})
            e["count"] += count
        else:
            self.violation_count += count
            for ex in examples[:2]:
                if len(self.violations) < 40:
                    self.violations.append(ex)

    def finish(self):
        wall = time.time() - self.t0
        os.makedirs(os.path.join(VERIF, "evidence"), exist_ok=True)
        os.makedirs(os.path.join(VERIF, "replays"), exist_ok=True)
        lines = []
        replay_paths = []
        seen_sigs = set()
        for ex in self.violations:
            key = ex.get("sig", "")
            if key in seen_sigs:
                continue
            seen_sigs.add(key)
            h = hashlib.sha1((self.prop + key).encode()).hexdigest()[:10]
            path = os.path.join(VERIF, "replays", "%s-%s.json" % (self.prop, h))
            with open(path, "w") as f:
                json.dump(ex, f, indent=1, ensure_ascii=False)
            replay_paths.append(path)
            lines.append("VIOLATION property=%s replay=%s" % (self.prop, path))
            log("  witness [%s] %s" % (ex.get("sig"), str(ex.get("detail", ""))[:600]))
        for kid, e in sorted(self.known_seen.items()):
            lines.append("KNOWN-FINDING: property=%s %s (%s; seen %d times this run, e.g. %s)" % (self.prop, kid, e["what"], e["count"], e["example"][:160].replace("\n", " ")))
        too_few = self.evaluations < 1 or self.distinct < 2
        incon_bound = max(3, self.evaluations // 50)
        inconclusive = too_few or self.inconclusive_count > incon_bound
        cov = {
            "evaluations": int(self.evaluations),
            "distinct_nontrivial": int(self.distinct),
            "rule": self.rule,
            "samples": self.samples[:6] if self.samples else [{"note": "no sample recorded"}],
            "observations": int(self.observations),
            "counters": self.counters,
            "features_seen": self.features,
            "known_findings_seen": self.known_seen,
            "inconclusive_cases": self.inconclusive_count,
            "inconclusive_examples": self.inconclusive[:5],
            "violation_witnesses": [{"sig": v.get("sig"), "detail": str(v.get("detail", ""))[:400]} for v in self.violations[:10]],
        }
        if self.exhaustive is not None:
            cov["exhaustive"] = bool(self.exhaustive)
        cov.update(self.extra)
        ev = {
            "property_id": self.prop, "tier": self.tier, "seed": int(self.seed), "level": self.level,
            "coverage": cov, "assumptions": self.assumptions, "wall_s": round(wall, 2),
            "violations": int(self.violation_count),
            "verdict": "violated" if self.violation_count else ("inconclusive" if inconclusive else "held on what was observed"),
        }
        with open(os.path.join(VERIF, "evidence", self.prop + ".json"), "w") as f:
            json.dump(ev, f, indent=1, ensure_ascii=False)
        for l in lines:
            print(l)
        print("%s %s seed=%d: %d evaluations, %d distinct, %d observations, %d violations, %d known-finding classes, %d inconclusive, %.1fs"
              % (self.prop, self.tier, self.seed, self.evaluations, self.distinct, self.observations, self.violation_count, len(self.known_seen), self.inconclusive_count, wall))
        if self.violation_count:
            return 1
        if inconclusive:
            print("INCONCLUSIVE property=%s (%s)" % (self.prop, "too few observations" if too_few else "%d inconclusive cases" % self.inconclusive_count))
            return 2
        return 0
