HOOK_COMMITS = ["fcbfbac"]
CHECKS = {
 "C17": {"level": "exploration",
  "text": "Runs the real codec functions on every column 1..16384, every 1-3 letter name, every row (thorough) x boundary columns x lock combinations, sampled range shapes and legal sheet names, and compares each result with independent bijective base-26 arithmetic / structural equality. Columns and names are exhausted; the rest is sampled, so the claim is 'held on the inputs observed'.",
  "note": "Trusted: the 20-line reference base-26 implementation in the harness; legal sheet-name alphabet as documented by Excel. Address round trip is checked at helper level (split/join) and struct level (Address print/parse).",
  "technique": "runtime monitoring: differential oracle (independent base-26 + round-trip equality) over exhaustive/sampled inputs"},
 "C18": {"level": "exploration",
  "text": "Runs convert_date / excel_to_date_time_object / the date formatter on every day of the 1900 system at several times of day and on every second of boundary days; compares with independent civil-calendar arithmetic, checks monotonicity and the inverse direction to the second.",
  "note": "Trusted: days-from-civil reference in the harness. 1904 system and time zones are outside the property.",
  "technique": "runtime monitoring: differential oracle (independent calendar arithmetic), exhaustive over days"},
 "C19": {"level": "exploration", "python": True,
  "text": "Formats tens of thousands (quick) to 1.5 million (thorough) generated numbers (<= 15 significant digits; ties, 9-chains that carry, zeros after the point, negatives, 1e-7..1e15) under every fixed-decimal / thousands / percentage pattern through the real Cell::get_formatted_value and to_formatted_string, and every built-in format id under a panic guard; each output is compared with an exact Python-decimal rendering of the float's shortest representation.",
  "note": "Trusted: Python's decimal and repr(float); '-0.00' and '0.00' are both accepted when a negative number rounds to zero.",
  "technique": "runtime monitoring: differential oracle (exact big-decimal reference) over generated inputs, panic monitor"},
 "C20": {"level": "exploration", "python": True,
  "text": "Exports generated sparse sheets with all 60 option combinations through the real csv::write_writer; the bytes are decoded with the selected encoding by Python codecs and parsed by an RFC-4180 parser written for this purpose, and the recovered grid is compared with the intended grid (rows 1..max x columns 1..max of the active sheet).",
  "note": "Trusted: Python codecs, the 60-line parser in monitors/csv4180.py, Rust's White_Space set reproduced for the trim expectation. Without a wrap character the standard quote '\"' is the parser's quote character.",
  "technique": "runtime monitoring: independent decoder/parser as oracle over generated sheets x exhaustive option combinations"},
}
PENDING = {p: "check not built yet in this session (design in DESIGN.md section 2); will be claimed once its monitor runs silent on the unchanged tree" for p in
 ["C01","C02","C03","C04","C05","C06","C07","C08","C09","C10","C11","C12","C13","C14","C15","C16"]}
