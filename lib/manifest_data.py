HOOK_COMMITS = ["fcbfbac"]
CHECKS = {
 "C17": {"level": "exploration",
  "text": "Runs the real codec functions on every column 1..16384, every 1-3 letter name, every row (thorough) x boundary columns x lock combinations, sampled range shapes and legal sheet names, and compares each result with independent bijective base-26 arithmetic / structural equality. Columns and names are exhausted; the rest is sampled, so the claim is 'held on the inputs observed'.",
  "note": "Trusted: the 20-line reference base-26 implementation in the harness; legal sheet-name alphabet as documented by Excel. Address round trip is checked at helper level (split/join) and struct level (Address print/parse).",
  "technique": "runtime monitoring: differential oracle (independent base-26 + round-trip equality) over exhaustive/sampled inputs"},
 "C18": {"level": "exploration",
  "text": "Runs convert_date / excel_to_date_time_object / the date formatter on every day of the 1900 system at several times of day and on every second of boundary days; compares with independent civil-calendar arithmetic, checks monotonicity and the inverse direction to the second.",
  "note": "Trusted: days-from-civil reference in the harness. 1904 system and time zones are outside the property.",
  "technique": "runtime monitoring: differential oracle (independent calendar arithmetic), exhaustive over days"},
}
PENDING = {p: "check not built yet in this session (design in DESIGN.md section 2); will be claimed once its monitor runs silent on the unchanged tree" for p in
 ["C01","C02","C03","C04","C05","C06","C07","C08","C09","C10","C11","C12","C13","C14","C15","C16","C19","C20"]}
