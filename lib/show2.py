#!/usr/bin/env python3
"""compact view: divergence counts per (sig, feature set), one example each for single-feature cases"""
import json, sys, collections
d = json.load(open(sys.argv[1]))
w = int(sys.argv[2]) if len(sys.argv) > 2 else 260
only = sys.argv[3] if len(sys.argv) > 3 else None
print({k: d[k] for k in ('evaluations', 'observations', 'distinct_nontrivial', 'inconclusive_count')})
print('features', d.get('features'))
by = collections.OrderedDict()
for g in sorted(d['divergences'], key=lambda g: (len(g['examples'][0]['features']), g['examples'][0]['features'], g['examples'][0]['sig'])):
    e = g['examples'][0]
    if len(e['features']) > 1 and not only:
        continue
    if only and only not in e['features']:
        continue
    print(g['count'], e['sig'], e['features'], '|', e['detail'][:w])
multi = sum(g['count'] for g in d['divergences'] if len(g['examples'][0]['features']) > 1)
print('divergences in multi-feature cases:', multi)
