#!/usr/bin/env python3
"""print the divergence groups of a uvh result.json"""
import json, sys
d = json.load(open(sys.argv[1]))
w = int(sys.argv[2]) if len(sys.argv) > 2 else 300
print({k: d[k] for k in ('evaluations', 'observations', 'distinct_nontrivial', 'inconclusive_count')}, d.get('features'))
for g in sorted(d['divergences'], key=lambda g: (g['examples'][0]['sig'])):
    e = g['examples'][0]
    print(g['count'], e['sig'], e['features'], '|', e['detail'][:w])
for i in d.get('inconclusive', [])[:5]:
    print('INCONCLUSIVE', i)
