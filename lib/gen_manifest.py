#!/usr/bin/env python3
"""Regenerate MANIFEST.json from the property registry (single source of truth: lib/manifest_data.py)."""
import json, os, sys
sys.path.insert(0, os.path.dirname(os.path.abspath(__file__)))
from manifest_data import CHECKS, PENDING, HOOK_COMMITS
V = os.path.dirname(os.path.dirname(os.path.abspath(__file__)))
m = {
 "version": 1,
 "setup_cmd": "cd /verif && ./setup.sh",
 "hooks": {
  "guard": "umya_verif",
  "enable": "RUSTFLAGS=\"--cfg umya_verif\" (the harness crate /verif/harness depends on /repo by path and is built with this flag by ./check)",
  "baseline_off_cmd": "cd /repo && cargo test --workspace --no-fail-fast --offline",
  "source_commits": HOOK_COMMITS,
  "add_only": True
 },
 "engines": [
  {"name": "uvh", "path": "/verif/harness", "serves_properties": sorted(CHECKS), "kind_free_text": "Rust harness: generates workloads through the public API, runs the real library under catch_unwind, in-process reference models and invariant monitors, event logs"},
  {"name": "monitors", "path": "/verif/monitors", "serves_properties": [p for p in sorted(CHECKS) if CHECKS[p].get("python")], "kind_free_text": "stand-alone Python oracles (independent xlsx decoder/validator, MS-OFFCRYPTO decryptor, decimal formatter, RFC-4180 parser, fault injectors)"}
 ],
 "checks": [],
 "not_applicable": [{"property_id": p, "reason": r} for p, r in sorted(PENDING.items())],
 "notes": "Runtime monitoring: every check runs the real library (built from /repo's working tree with cfg(umya_verif)) under generated workloads while an oracle that is not the code under test observes. Verdicts: exit 0 held on what was observed / exit 1 VIOLATION / exit 2 INCONCLUSIVE. See DESIGN.md."
}
for p in sorted(CHECKS):
    c = CHECKS[p]
    m["checks"].append({
     "property_id": p,
     "quick_cmd": "./check %s quick" % p,
     "thorough_cmd": "./check %s thorough" % p,
     "evidence_file": "/verif/evidence/%s.json" % p,
     "replay_cmd_template": "./check %s --replay {path}" % p,
     "engine": "uvh",
     "level_claimed": {"category": c["level"], "text": c["text"], "design_ref": "DESIGN.md section 2, " + p},
     "level_note": c["note"],
     "technique": c["technique"],
    })
json.dump(m, open(os.path.join(V, "MANIFEST.json"), "w"), indent=1)
print("MANIFEST.json: %d checks, %d not claimed" % (len(m["checks"]), len(m["not_applicable"])))
