#!/bin/bash
# Apply a kept seeded change to /repo, run the checks named in its meta.json (or given as arguments), undo it.
# usage: selftest/run_seeded.sh <id> [Cxx ...]      exit 0 iff at least one check reports VIOLATION
set -u
ID=$1; shift
D=/verif/seeded/$ID
[ -f "$D/patch.diff" ] || { echo "no $D/patch.diff"; exit 2; }
CHECKS=${*:-$(python3 -c "import json;print(' '.join(json.load(open('$D/meta.json'))['checks_expected']))")}
[ -z "$(git -C /repo status --porcelain --untracked-files=no)" ] || { echo "/repo is not clean"; exit 2; }
git -C /repo apply "$D/patch.diff" || exit 2
trap 'git -C /repo checkout -- . ; git -C /repo clean -fdq src' EXIT
hit=1
for c in $CHECKS; do
  out=$(cd /verif && ./check $c ${TIER:-quick} 2>&1); rc=$?
  echo "$out" | grep -E "^(VIOLATION|C[0-9]+ |INCONCLUSIVE)" | head -4
  echo "$out" | grep "witness" | head -2 | cut -c1-300
  [ $rc -eq 1 ] && hit=0
done
exit $hit
