#!/bin/bash
# Confirm a seeded change independently of the agent that wrote it:
#   demo passes on the unchanged tree, fails with the patch; the patch compiles and the pinned suite still passes.
# usage: selftest/confirm.sh <dir with patch.diff and demo.rs>
set -u
D=$(realpath "$1"); ID=$(basename "$D"); WT=/tmp/confirm-$ID
git -C /repo worktree remove --force "$WT" 2>/dev/null
git -C /repo worktree add -q --detach "$WT" HEAD || exit 2
trap 'git -C /repo worktree remove --force "$WT" 2>/dev/null' EXIT
cd "$WT" && cp "$D/demo.rs" tests/seed_demo.rs
echo "== demo on the unchanged tree (must pass)"
cargo test --offline --test seed_demo 2>&1 | grep -E "^test result|panicked" | head -3; A=${PIPESTATUS[0]}
git apply "$D/patch.diff" || { echo "PATCH DOES NOT APPLY"; exit 2; }
echo "== demo with the change (must fail)"
cargo test --offline --test seed_demo 2>&1 | grep -E "^test result|panicked" | head -3; B=${PIPESTATUS[0]}
rm tests/seed_demo.rs
echo "== pinned suite with the change (must be 17 + 78 passed, 2 baseline failures)"
cargo test --workspace --no-fail-fast --offline 2>&1 | grep -E "^test result" | head -3
echo "RESULT demo_without=$A demo_with=$B"
