#!/bin/bash
# Runs every kept seeded change against the checks named in its meta.json; prints one line per change.
cd /verif
fail=0
for d in seeded/C*/; do
  id=$(basename $d)
  out=$(selftest/run_seeded.sh $id 2>&1); rc=$?
  if [ $rc -eq 0 ]; then echo "CAUGHT  $id  ($(echo "$out" | grep -E '^C[0-9]+ ' | grep -v ' 0 violations' | cut -d' ' -f1 | tr '\n' ' '))"; else echo "MISSED  $id"; fail=1; fi
done
exit $fail
