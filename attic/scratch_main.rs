use umya_spreadsheet::*;
use std::io::Cursor;
fn rt(book:&Spreadsheet)->Spreadsheet{
    let mut buf=Vec::new();
    writer::xlsx::write_writer(book,&mut buf).unwrap();
    reader::xlsx::read_reader(Cursor::new(buf),true).unwrap()
}
fn main(){
    let mut book=new_file();
    let ws=book.get_sheet_mut(&0).unwrap();
    for i in 1..=6u32 {
        let c=ws.get_cell_mut((1,i));
        c.set_value_string(format!("link{}",i));
        c.get_hyperlink_mut().set_url(format!("http://example.com/{}?a=1&b=2",i));
    }
    ws.get_cell_mut("B1").set_error("#DIV/0!");
    ws.get_cell_mut("B2").set_formula("1+2").set_formula_result_default("3");
    ws.get_cell_mut("B3").set_value_string("");
    ws.get_cell_mut("B4").set_value_string(" a\r\nb\rc\t ");
    ws.get_cell_mut("B5").set_value_number(-0.0f64);
    ws.get_cell_mut("B6").set_value_number(1e300f64);
    ws.get_cell_mut("B7").set_value_number(5e-324f64);
    ws.get_cell_mut("B8").set_value_string("x\u{1}y");
    let b2=rt(&book);
    let ws2=b2.get_sheet(&0).unwrap();
    for c in ws2.get_cell_collection_sorted(){
        println!("{} kind={:?} val={:?} f={:?} link={:?}", c.get_coordinate().get_coordinate(), c.get_data_type(), c.get_value(), c.get_formula(), c.get_hyperlink().map(|h|h.get_url().to_string()));
    }
}
