use umya_spreadsheet::*;
fn js(s:&str)->String{ let mut o=String::from("\""); for c in s.chars(){ match c { '"'=>o.push_str("\\\""), '\\'=>o.push_str("\\\\"), '\n'=>o.push_str("\\n"), '\r'=>o.push_str("\\r"), '\t'=>o.push_str("\\t"), c if (c as u32)<0x20 => o.push_str(&format!("\\u{:04x}",c as u32)), c=>o.push(c) } } o.push('"'); o }
fn main(){
    std::panic::set_hook(Box::new(|_|{}));
    for path in std::env::args().skip(1){
        let p=path.clone();
        let r=std::panic::catch_unwind(move||{
            let mut book=reader::xlsx::read(std::path::Path::new(&p)).map_err(|e|format!("{:?}",e))?;
            let gens:usize=std::env::var("GENS").ok().and_then(|v|v.parse().ok()).unwrap_or(0);
            for _ in 0..gens { let mut buf=Vec::new(); writer::xlsx::write_writer(&book,&mut buf).map_err(|e|format!("{:?}",e))?; book=reader::xlsx::read_reader(std::io::Cursor::new(buf),true).map_err(|e|format!("{:?}",e))?; }
            let mut out=String::new();
            out.push_str(&format!("{{\"file\":{},\"sheets\":[",js(&p)));
            for (i,ws) in book.get_sheet_collection().iter().enumerate(){
                if i>0 {out.push(',');}
                out.push_str(&format!("{{\"name\":{},\"state\":{},\"cells\":{{",js(ws.get_name()),js(ws.get_sheet_state())));
                let mut first=true;
                for c in ws.get_cell_collection_sorted(){
                    let kind=c.get_data_type(); let v=c.get_value(); let f=c.get_formula();
                    if kind=="" && f=="" && c.get_hyperlink().is_none() { continue; }
                    if !first {out.push(',');} first=false;
                    out.push_str(&format!("{}:{{\"k\":{},\"v\":{},\"f\":{}",js(&c.get_coordinate().get_coordinate()),js(kind),js(&v),js(f)));
                    if let CellRawValue::RichText(_)=c.get_raw_value(){ out.push_str(",\"rich\":true"); }
                    if let Some(h)=c.get_hyperlink(){ out.push_str(&format!(",\"link\":{},\"loc\":{}",js(h.get_url()),h.get_location())); }
                    out.push('}');
                }
                out.push_str("},\"merges\":[");
                out.push_str(&ws.get_merge_cells().iter().map(|r|js(&r.get_range())).collect::<Vec<_>>().join(","));
                out.push_str("]}");
            }
            out.push_str("],\"names\":[");
            let mut names=vec![]; for d in book.get_defined_names(){ names.push(format!("[{},{}]",js(d.get_name()),js(&d.get_address()))); }
            for ws in book.get_sheet_collection(){ for d in ws.get_defined_names(){ names.push(format!("[{},{}]",js(d.get_name()),js(&d.get_address()))); } }
            out.push_str(&names.join(",")); out.push_str("]}");
            Ok::<String,String>(out)
        });
        match r { Ok(Ok(s))=>println!("{}",s), Ok(Err(e))=>println!("{{\"file\":{},\"error\":{}}}",js(&path),js(&e)), Err(_)=>println!("{{\"file\":{},\"panic\":true}}",js(&path)) }
    }
}
