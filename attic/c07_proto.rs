// prototype: reference grid vs library under random structural-edit histories
use umya_spreadsheet::*;
use std::collections::BTreeMap;
use std::panic::{catch_unwind, AssertUnwindSafe};
struct Rng(u64);
impl Rng{ fn next(&mut self)->u64{ self.0=self.0.wrapping_add(0x9e3779b97f4a7c15); let mut z=self.0; z=(z^(z>>30)).wrapping_mul(0xbf58476d1ce4e5b9); z=(z^(z>>27)).wrapping_mul(0x94d049bb133111eb); z^(z>>31) } fn below(&mut self,n:u64)->u64{ self.next()%n } fn range(&mut self,a:u32,b:u32)->u32{ a+(self.below((b-a+1) as u64) as u32) } }
#[derive(Clone,Debug,PartialEq)] struct Rect{c1:u32,r1:u32,c2:u32,r2:u32}
impl Rect{ fn s(&self)->String{ let a=helper::coordinate::coordinate_from_index(&self.c1,&self.r1); let b=helper::coordinate::coordinate_from_index(&self.c2,&self.r2); format!("{}:{}",a,b) } }
#[derive(Clone,Debug,PartialEq)] struct CellRec{val:String,link:Option<String>}
#[derive(Clone,Debug,Default)] struct MSheet{ cells:BTreeMap<(u32,u32),CellRec>, merges:Vec<Rect>, comments:Vec<(u32,u32,String)>, cf:Vec<Rect>, filter:Option<Rect>, heights:BTreeMap<u32,u64>, widths:BTreeMap<u32,u64> }
fn ins(x:u32,p:u32,n:u32)->u32{ if x>=p {x+n} else {x} }
fn rem(x:u32,p:u32,n:u32)->Option<u32>{ if x<p {Some(x)} else if x<p+n {None} else {Some(x-n)} }
fn rem_rect_axis(a:u32,b:u32,p:u32,n:u32)->Option<(u32,u32)>{ // a..=b
    if a>=p && b<p+n { return None; }
    let a2= if a<p {a} else if a<p+n {p} else {a-n};
    let b2= if b<p {b} else if b<p+n {p-1} else {b-n};
    Some((a2,b2)) }
impl MSheet{
    fn insert(&mut self,is_row:bool,p:u32,n:u32){
        let f=|c:u32,r:u32| if is_row {(c,ins(r,p,n))} else {(ins(c,p,n),r)};
        self.cells=self.cells.iter().map(|(&(c,r),v)|(f(c,r),v.clone())).collect();
        for m in self.merges.iter_mut().chain(self.cf.iter_mut()).chain(self.filter.iter_mut()){ let (c1,r1)=f(m.c1,m.r1); let (c2,r2)=f(m.c2,m.r2); *m=Rect{c1,r1,c2,r2}; }
        for cm in self.comments.iter_mut(){ let (c,r)=f(cm.0,cm.1); cm.0=c; cm.1=r; }
        if is_row { self.heights=self.heights.iter().map(|(&r,&h)|(ins(r,p,n),h)).collect(); } else { self.widths=self.widths.iter().map(|(&c,&w)|(ins(c,p,n),w)).collect(); }
    }
    fn remove(&mut self,is_row:bool,p:u32,n:u32){
        let f=|c:u32,r:u32|->Option<(u32,u32)>{ if is_row { rem(r,p,n).map(|r|(c,r)) } else { rem(c,p,n).map(|c|(c,r)) } };
        self.cells=self.cells.iter().filter_map(|(&(c,r),v)|f(c,r).map(|k|(k,v.clone()))).collect();
        let g=|m:&Rect|->Option<Rect>{ if is_row { rem_rect_axis(m.r1,m.r2,p,n).map(|(a,b)|Rect{c1:m.c1,r1:a,c2:m.c2,r2:b}) } else { rem_rect_axis(m.c1,m.c2,p,n).map(|(a,b)|Rect{c1:a,r1:m.r1,c2:b,r2:m.r2}) } };
        self.merges=self.merges.iter().filter_map(g).collect(); self.cf=self.cf.iter().filter_map(g).collect(); self.filter=self.filter.as_ref().and_then(g);
        self.comments=self.comments.iter().filter_map(|(c,r,t)|f(*c,*r).map(|(c,r)|(c,r,t.clone()))).collect();
        if is_row { self.heights=self.heights.iter().filter_map(|(&r,&h)|rem(r,p,n).map(|r|(r,h))).collect(); } else { self.widths=self.widths.iter().filter_map(|(&c,&w)|rem(c,p,n).map(|c|(c,w))).collect(); }
    }
    fn mv(&mut self,rc:&Rect,dr:i32,dc:i32,is_move:bool){
        let src:Vec<((u32,u32),CellRec)>=self.cells.iter().filter(|(&(c,r),_)|c>=rc.c1&&c<=rc.c2&&r>=rc.r1&&r<=rc.r2).map(|(k,v)|(*k,v.clone())).collect();
        if is_move { for c in rc.c1..=rc.c2 { for r in rc.r1..=rc.r2 { self.cells.remove(&(c,r)); self.cells.remove(&(((c as i32)+dc) as u32,((r as i32)+dr) as u32)); } } }
        for ((c,r),v) in src { self.cells.insert((((c as i32)+dc) as u32,((r as i32)+dr) as u32),v); }
    }
    fn dump(&self)->Vec<String>{ let mut o=vec![];
        for ((c,r),v) in &self.cells { o.push(format!("CELL {}{} {} {:?}",helper::coordinate::string_from_column_index(c),r,v.val,v.link)); }
        let mut m:Vec<String>=self.merges.iter().map(|x|x.s()).collect(); m.sort(); o.push(format!("MERGES {:?}",m));
        let mut m:Vec<String>=self.cf.iter().map(|x|x.s()).collect(); m.sort(); o.push(format!("CF {:?}",m));
        o.push(format!("FILTER {:?}",self.filter.as_ref().map(|x|x.s())));
        let mut m:Vec<String>=self.comments.iter().map(|(c,r,t)|format!("{}{}={}",helper::coordinate::string_from_column_index(c),r,t)).collect(); m.sort(); o.push(format!("COMMENTS {:?}",m));
        o.push(format!("HEIGHTS {:?}",self.heights)); o.push(format!("WIDTHS {:?}",self.widths)); o }
}
fn lib_dump(ws:&Worksheet)->Vec<String>{ let mut o=vec![];
    let mut cells:Vec<(u32,u32,String)>=vec![];
    for c in ws.get_cell_collection(){ if c.get_value()=="" && c.get_hyperlink().is_none(){continue;} cells.push((*c.get_coordinate().get_col_num(),*c.get_coordinate().get_row_num(),format!("{} {:?}",c.get_value(),c.get_hyperlink().map(|h|h.get_url().to_string())))); }
    cells.sort(); for (c,r,s) in cells { o.push(format!("CELL {}{} {}", if c>=1 {helper::coordinate::string_from_column_index(&c)} else {"<0>".into()},r,s)); }
    let mut m:Vec<String>=ws.get_merge_cells().iter().map(|x|x.get_range()).collect(); m.sort(); o.push(format!("MERGES {:?}",m));
    let mut m:Vec<String>=ws.get_conditional_formatting_collection().iter().flat_map(|cf|cf.get_sequence_of_references().get_range_collection().iter().map(|r|r.get_range()).collect::<Vec<_>>()).collect(); m.sort(); o.push(format!("CF {:?}",m));
    o.push(format!("FILTER {:?}",ws.get_auto_filter().map(|a|a.get_range().get_range())));
    let mut m:Vec<String>=ws.get_comments().iter().map(|c|format!("{}={}",c.get_coordinate().get_coordinate(),c.get_text().get_text())).collect(); m.sort(); o.push(format!("COMMENTS {:?}",m));
    let mut h=BTreeMap::new(); for r in ws.get_row_dimensions(){ if *r.get_height()!=0.0 { h.insert(*r.get_row_num(),*r.get_height() as u64); } } o.push(format!("HEIGHTS {:?}",h));
    let mut w=BTreeMap::new(); for c in ws.get_column_dimensions(){ if *c.get_width()>=20.0 { w.insert(*c.get_col_num(),*c.get_width() as u64); } } o.push(format!("WIDTHS {:?}",w)); o }
fn main(){
    if std::env::var("LOUD").is_err() { std::panic::set_hook(Box::new(|_|{})); }
    let args:Vec<String>=std::env::args().collect(); let seed:u64=args.get(1).map(|s|s.parse().unwrap()).unwrap_or(1); let ncases:u64=args.get(2).map(|s|s.parse().unwrap()).unwrap_or(200);
    let mut classes:BTreeMap<String,(u64,String)>=BTreeMap::new(); let mut ops_total=0u64; let mut viol=0u64;
    for case in 0..ncases { let mut rng=Rng(seed*1_000_003+case);
        let nsheets=rng.range(1,3) as usize; let names:Vec<String>=(0..nsheets).map(|i|format!("S{}",i+1)).collect();
        let mut book=new_file(); book.set_sheet_name(0,"S1").unwrap(); for n in names.iter().skip(1){ book.new_sheet(n.clone()).unwrap(); }
        let mut model:Vec<MSheet>=vec![MSheet::default();nsheets]; let mut uid=0u32;
        const W:u32=12; const H:u32=14;
        for si in 0..nsheets { let ws=book.get_sheet_mut(&si).unwrap();
            for _ in 0..rng.range(5,30){ let (c,r)=(rng.range(1,W),rng.range(1,H)); uid+=1; let v=format!("v{}",uid); let link= if rng.below(5)==0 {Some(format!("http://h/{}",uid))} else {None};
                let cell=ws.get_cell_mut((c,r)); cell.set_value_string(v.clone()); if let Some(l)=&link { cell.get_hyperlink_mut().set_url(l.clone()); } else if cell.get_hyperlink().is_some() { /* keep */ }
                let keep=model[si].cells.get(&(c,r)).and_then(|x|x.link.clone()); model[si].cells.insert((c,r),CellRec{val:v,link:link.or(keep)}); }
            for _ in 0..rng.range(0,3){ let c1=rng.range(1,W-1); let r1=rng.range(1,H-1); let rc=Rect{c1,r1,c2:rng.range(c1,W),r2:rng.range(r1,H)}; ws.add_merge_cells(rc.s()); model[si].merges.push(rc); }
            for _ in 0..rng.range(0,2){ let c1=rng.range(1,W-1); let r1=rng.range(1,H-1); let rc=Rect{c1,r1,c2:rng.range(c1,W),r2:rng.range(r1,H)}; let mut cf=ConditionalFormatting::default(); cf.get_sequence_of_references_mut().set_sqref(rc.s()); let mut rule=ConditionalFormattingRule::default(); rule.set_type(ConditionalFormatValues::CellIs); cf.add_conditional_collection(rule); ws.add_conditional_formatting_collection(cf); model[si].cf.push(rc); }
            if rng.below(2)==0 { let c1=rng.range(1,W-1); let r1=rng.range(1,H-1); let rc=Rect{c1,r1,c2:rng.range(c1,W),r2:rng.range(r1,H)}; ws.set_auto_filter(rc.s()); model[si].filter=Some(rc); }
            for _ in 0..rng.range(0,3){ let (c,r)=(rng.range(1,W),rng.range(1,H)); uid+=1; let mut cm=Comment::default(); cm.new_comment((c,r)); cm.set_text_string(format!("c{}",uid)); ws.add_comments(cm); model[si].comments.push((c,r,format!("c{}",uid))); }
            for _ in 0..rng.range(0,3){ let r=rng.range(1,H); uid+=1; let h=(30+uid%50) as u64; ws.get_row_dimension_mut(&r).set_height(h as f64); model[si].heights.insert(r,h); }
            for _ in 0..rng.range(0,3){ let c=rng.range(1,W); uid+=1; let w=(20+uid%50) as u64; ws.get_column_dimension_by_number_mut(&c).set_width(w as f64); model[si].widths.insert(c,w); }
        }
        let nops=rng.range(1,12);
        'hist: for opi in 0..nops { ops_total+=1;
            let si=rng.below(nsheets as u64) as usize; let kind=rng.below(8); let wb_level=rng.below(2)==0;
            let p=match rng.below(4){0=>1,1=>rng.range(1,3),_=>rng.range(1,H)}; let n=match rng.below(3){0=>1,_=>rng.range(1,4)};
            let desc; let name=names[si].clone();
            let r=catch_unwind(AssertUnwindSafe(||{
                match kind { 0=>{ if wb_level {book.insert_new_row(&name,&p,&n);} else {book.get_sheet_mut(&si).unwrap().insert_new_row(&p,&n);} }
                 1=>{ if wb_level {book.remove_row(&name,&p,&n);} else {book.get_sheet_mut(&si).unwrap().remove_row(&p,&n);} }
                 2=>{ if wb_level {book.insert_new_column_by_index(&name,&p,&n);} else {book.get_sheet_mut(&si).unwrap().insert_new_column_by_index(&p,&n);} }
                 3=>{ if wb_level {book.remove_column_by_index(&name,&p,&n);} else {book.get_sheet_mut(&si).unwrap().remove_column_by_index(&p,&n);} }
                 _=>{} } }));
            match kind {0=>{model[si].insert(true,p,n); desc=format!("ins_row {} p={} n={} wb={}",name,p,n,wb_level);} 1=>{model[si].remove(true,p,n); desc=format!("rem_row {} p={} n={} wb={}",name,p,n,wb_level);} 2=>{model[si].insert(false,p,n); desc=format!("ins_col {} p={} n={} wb={}",name,p,n,wb_level);} 3=>{model[si].remove(false,p,n); desc=format!("rem_col {} p={} n={} wb={}",name,p,n,wb_level);}
              4|5=>{ let c1=rng.range(1,W); let r1=rng.range(1,H); let rc=Rect{c1,r1,c2:rng.range(c1,(c1+4).min(W+4)),r2:rng.range(r1,(r1+4).min(H+4))}; let dr=rng.range(0,8) as i32-4; let dc=rng.range(0,8) as i32-4;
                    if (rc.c1 as i32+dc)<1 || (rc.r1 as i32+dr)<1 { desc="skip".into(); } else { let is_move=kind==4; desc=format!("{} {} {} dr={} dc={}", if is_move {"move"} else {"copy"}, name, rc.s(), dr, dc);
                    let rr=catch_unwind(AssertUnwindSafe(||{ let ws=book.get_sheet_mut(&si).unwrap(); if is_move { ws.move_range(&rc.s(),&dr,&dc); } else { ws.copy_range(&rc.s(),&dr,&dc); } }));
                    if rr.is_err(){ viol+=1; classes.entry("panic-move".into()).or_insert((0,format!("case {} op {} {}",case,opi,desc))).0+=1; break 'hist; }
                    model[si].mv(&rc,dr,dc,is_move); } }
              6=>{ let (c,r)=(rng.range(1,W),rng.range(1,H)); uid+=1; let v=format!("v{}",uid); book.get_sheet_mut(&si).unwrap().get_cell_mut((c,r)).set_value_string(v.clone()); let keep=model[si].cells.get(&(c,r)).and_then(|x|x.link.clone()); model[si].cells.insert((c,r),CellRec{val:v,link:keep}); desc=format!("set {} {},{}",name,c,r); }
              _=>{ let (c,r)=(rng.range(1,W),rng.range(1,H)); book.get_sheet_mut(&si).unwrap().remove_cell((c,r)); model[si].cells.remove(&(c,r)); desc=format!("del {} {},{}",name,c,r); } }
            if r.is_err(){ viol+=1; classes.entry(format!("panic kind{}",kind)).or_insert((0,format!("case {} op {} {}",case,opi,desc))).0+=1; break 'hist; }
            for sj in 0..nsheets { let l=match catch_unwind(AssertUnwindSafe(||lib_dump(book.get_sheet(&sj).unwrap()))){Ok(l)=>l,Err(_)=>vec!["OBSERVER-PANIC".to_string()]}; let m=model[sj].dump();
                if l!=m { viol+=1; let mut diff=vec![]; for x in &m { if !l.contains(x){ diff.push(format!("exp {}",x)); } } for x in &l { if !m.contains(x){ diff.push(format!("got {}",x)); } }
                    let cls=format!("{} sheet={} line={}", desc.split(' ').next().unwrap(), if sj==si {"edited"} else {"OTHER"}, diff.get(0).map(|d|d.split(' ').nth(1).unwrap_or("").to_string()).unwrap_or_default());
                    classes.entry(cls).or_insert((0,format!("case {} op {} [{}] {:?}",case,opi,desc,diff.iter().take(4).collect::<Vec<_>>()))).0+=1; break 'hist; } }
        }
    }
    println!("cases {} ops {} violations {}",ncases,ops_total,viol);
    for (k,(n,w)) in classes { println!("{:5} {:40} e.g. {}",n,k,w); }
}
