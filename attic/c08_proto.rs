// prototype: AST formula generator + independent reference shifter vs library (workbook-level insert/remove)
use umya_spreadsheet::*;
use std::collections::{BTreeMap,BTreeSet};
use std::panic::{catch_unwind, AssertUnwindSafe};
struct Rng(u64);
impl Rng{ fn next(&mut self)->u64{ self.0=self.0.wrapping_add(0x9e3779b97f4a7c15); let mut z=self.0; z=(z^(z>>30)).wrapping_mul(0xbf58476d1ce4e5b9); z=(z^(z>>27)).wrapping_mul(0x94d049bb133111eb); z^(z>>31) } fn below(&mut self,n:u64)->u64{ self.next()%n } fn range(&mut self,a:u32,b:u32)->u32{ a+(self.below((b-a+1) as u64) as u32) } fn pick<'a,T>(&mut self,v:&'a [T])->&'a T{ &v[self.below(v.len() as u64) as usize] } }
#[derive(Clone,Debug)] struct CellRef{col:u32,row:u32,lc:bool,lr:bool}
#[derive(Clone,Debug)] enum RefKind{ Cell(CellRef), Range(CellRef,CellRef), Cols(u32,bool,u32,bool), Rows(u32,bool,u32,bool) }
#[derive(Clone,Debug)] struct Ref{ sheet:Option<String>, kind:RefKind }
#[derive(Clone,Debug)] enum Ast{ Num(String), Str(String), Bool(bool), Err(&'static str), Ref(Ref), Name(String), Bin(Box<Ast>,&'static str,Box<Ast>,bool), Un(&'static str,Box<Ast>), Pct(Box<Ast>), Paren(Box<Ast>), Func(&'static str,Vec<Ast>,bool), Isect(Box<Ast>,Box<Ast>), Union(Vec<Ast>), Array(Vec<Vec<Ast>>) }
fn colname(n:u32)->String{ let mut n=n; let mut s=String::new(); while n>0 { let r=(n-1)%26; s.insert(0,(b'A'+r as u8) as char); n=(n-1)/26; } s }
fn needs_quote(s:&str)->bool{ !s.chars().all(|c|c.is_ascii_alphanumeric()||c=='_') || s.chars().next().map(|c|c.is_ascii_digit()).unwrap_or(false) || s=="A1" }
fn sheet_prefix(s:&str)->String{ if needs_quote(s){ format!("'{}'!",s.replace("'","''")) } else { format!("{}!",s) } }
fn cr(c:&CellRef)->String{ format!("{}{}{}{}", if c.lc {"$"} else {""}, colname(c.col), if c.lr {"$"} else {""}, c.row) }
// returns None for a reference that is deleted (#REF!)
fn render_ref(r:&Ref)->String{ let p=r.sheet.as_ref().map(|s|sheet_prefix(s)).unwrap_or_default(); match &r.kind { RefKind::Cell(c)=>format!("{}{}",p,cr(c)), RefKind::Range(a,b)=>format!("{}{}:{}",p,cr(a),cr(b)), RefKind::Cols(a,la,b,lb)=>format!("{}{}{}:{}{}",p,if *la{"$"}else{""},colname(*a),if *lb{"$"}else{""},colname(*b)), RefKind::Rows(a,la,b,lb)=>format!("{}{}{}:{}{}",p,if *la{"$"}else{""},a,if *lb{"$"}else{""},b) } }
#[derive(Clone,Copy)] struct Edit{ is_row:bool, insert:bool, p:u32, n:u32 }
fn map1(x:u32,e:&Edit)->Option<u32>{ if e.insert { Some(if x>=e.p {x+e.n} else {x}) } else if x<e.p {Some(x)} else if x<e.p+e.n {None} else {Some(x-e.n)} }
fn map_span(a:u32,b:u32,e:&Edit)->Option<(u32,u32)>{ if e.insert { Some((map1(a,e).unwrap(),map1(b,e).unwrap())) } else { if a>=e.p && b<e.p+e.n {return None;} let a2= if a<e.p {a} else if a<e.p+e.n {e.p} else {a-e.n}; let b2= if b<e.p {b} else if b<e.p+e.n {e.p-1} else {b-e.n}; Some((a2,b2)) } }
fn shift_ref(r:&Ref,e:&Edit)->Option<Ref>{ let k=match &r.kind {
    RefKind::Cell(c)=>{ let mut c=c.clone(); if e.is_row { c.row=map1(c.row,e)?; } else { c.col=map1(c.col,e)?; } RefKind::Cell(c) }
    RefKind::Range(a,b)=>{ let (mut a,mut b)=(a.clone(),b.clone()); if e.is_row { let (x,y)=map_span(a.row,b.row,e)?; a.row=x; b.row=y; } else { let (x,y)=map_span(a.col,b.col,e)?; a.col=x; b.col=y; } RefKind::Range(a,b) }
    RefKind::Cols(a,la,b,lb)=>{ if e.is_row { r.kind.clone() } else { let (x,y)=map_span(*a,*b,e)?; RefKind::Cols(x,*la,y,*lb) } }
    RefKind::Rows(a,la,b,lb)=>{ if !e.is_row { r.kind.clone() } else { let (x,y)=map_span(*a,*b,e)?; RefKind::Rows(x,*la,y,*lb) } } };
    Some(Ref{sheet:r.sheet.clone(),kind:k}) }
struct Ctx<'a>{ own:&'a str, edited:&'a str, edit:Option<Edit> }
fn render(a:&Ast,cx:&Ctx)->String{ match a {
    Ast::Num(s)=>s.clone(), Ast::Str(s)=>format!("\"{}\"",s.replace('"',"\"\"")), Ast::Bool(b)=>if *b {"TRUE".into()} else {"FALSE".into()}, Ast::Err(e)=>e.to_string(), Ast::Name(n)=>n.clone(),
    Ast::Ref(r)=>{ let target=r.sheet.as_deref().unwrap_or(cx.own); match (&cx.edit, target==cx.edited) { (Some(e),true)=> match shift_ref(r,e){Some(r2)=>render_ref(&r2),None=>"#REF!".into()}, _=>render_ref(r) } }
    Ast::Bin(l,op,r,sp)=>{ let s= if *sp {" "} else {""}; format!("{}{}{}{}{}",render(l,cx),s,op,s,render(r,cx)) }
    Ast::Un(op,x)=>format!("{}{}",op,render(x,cx)), Ast::Pct(x)=>format!("{}%",render(x,cx)), Ast::Paren(x)=>format!("({})",render(x,cx)),
    Ast::Func(f,args,sp)=>format!("{}({})",f,args.iter().map(|x|render(x,cx)).collect::<Vec<_>>().join(if *sp {", "} else {","})),
    Ast::Isect(l,r)=>format!("{} {}",render(l,cx),render(r,cx)), Ast::Union(v)=>format!("({})",v.iter().map(|x|render(x,cx)).collect::<Vec<_>>().join(",")),
    Ast::Array(rows)=>format!("{{{}}}",rows.iter().map(|r|r.iter().map(|x|render(x,cx)).collect::<Vec<_>>().join(",")).collect::<Vec<_>>().join(";")) } }
fn features(a:&Ast,f:&mut BTreeSet<&'static str>){ match a {
    Ast::Num(s)=>{ if s.contains('E') {f.insert("sci");} } Ast::Str(s)=>{ if s.contains('"'){f.insert("str-dq");} if s.contains('\''){f.insert("str-sq");} if s.contains(' ')||s.contains(','){f.insert("str-punct");} } Ast::Bool(_)=>{} Ast::Err(_)=>{f.insert("errlit");} Ast::Name(n)=>{ f.insert("name"); if n.chars().next().unwrap().is_ascii_uppercase() && n.chars().any(|c|c.is_ascii_digit()) {f.insert("name-reflike");} }
    Ast::Ref(r)=>{ if let Some(s)=&r.sheet { f.insert("sheetq"); if needs_quote(s){f.insert("sheetq-quoted");} } match &r.kind { RefKind::Cell(c)=>{ if c.lc||c.lr {f.insert("abs");} } RefKind::Range(a,b)=>{ f.insert("range"); if a.lc||a.lr||b.lc||b.lr {f.insert("abs");} } RefKind::Cols(..)=>{f.insert("wholecol");} RefKind::Rows(..)=>{f.insert("wholerow");} } }
    Ast::Bin(l,_,r,sp)=>{ if *sp {f.insert("blank-op");} features(l,f); features(r,f); } Ast::Un(op,x)=>{ f.insert(if *op=="+" {"unary-plus"} else {"unary-minus"}); features(x,f); } Ast::Pct(x)=>{f.insert("pct"); features(x,f);} Ast::Paren(x)=>features(x,f),
    Ast::Func(_,args,sp)=>{ if *sp {f.insert("blank-arg");} for x in args {features(x,f);} } Ast::Isect(l,r)=>{f.insert("isect"); features(l,f); features(r,f);} Ast::Union(v)=>{f.insert("union"); for x in v {features(x,f);} } Ast::Array(rows)=>{f.insert("array"); for r in rows { for x in r {features(x,f);} } } } }
const W:u32=30; const H:u32=40;
fn gen_cellref(r:&mut Rng)->CellRef{ CellRef{col:r.range(1,W),row:r.range(1,H),lc:r.below(4)==0,lr:r.below(4)==0} }
fn gen_ref(r:&mut Rng,sheets:&[String])->Ref{ let sheet= if r.below(3)==0 {Some(r.pick(sheets).clone())} else {None};
    let kind=match r.below(10){0..=4=>RefKind::Cell(gen_cellref(r)),5..=7=>{ let a=gen_cellref(r); let mut b=gen_cellref(r); b.col=r.range(a.col,W); b.row=r.range(a.row,H); RefKind::Range(a,b) },8=>{ let a=r.range(1,W); RefKind::Cols(a,r.below(4)==0,r.range(a,W),r.below(4)==0) },_=>{ let a=r.range(1,H); RefKind::Rows(a,r.below(4)==0,r.range(a,H),r.below(4)==0) }}; Ref{sheet,kind} }
fn gen(r:&mut Rng,d:u32,sheets:&[String])->Ast{ let leaf=d==0||r.below(3)==0;
    if leaf { return match r.below(14){0..=6=>Ast::Ref(gen_ref(r,sheets)),7=>Ast::Num(r.pick(&["1","0.5","42","1E+5","2.5E-3","100"]).to_string()),8=>Ast::Str(r.pick(&["abc","a b","x,y","say \"hi\"","it's","","A1"]).to_string()),9=>Ast::Bool(r.below(2)==0),10=>Ast::Err(*r.pick(&["#N/A","#REF!","#DIV/0!","#VALUE!","#NAME?","#NUM!","#NULL!"])),11=>Ast::Name(r.pick(&["MyName","rate","Q1_sales","TAX","x_1"]).to_string()),12=>Ast::Array(vec![vec![Ast::Num("1".into()),Ast::Num("2".into())],vec![Ast::Num("3".into()),Ast::Str("z".into())]]),_=>Ast::Num("7".into())}; }
    match r.below(12){0..=3=>Ast::Bin(Box::new(gen(r,d-1,sheets)),*r.pick(&["+","-","*","/","^","&","=","<>","<=",">=","<",">"]),Box::new(gen(r,d-1,sheets)),r.below(4)==0),
        4=>Ast::Un(if r.below(4)==0 {"+"} else {"-"},Box::new(Ast::Paren(Box::new(gen(r,d-1,sheets))))),5=>Ast::Pct(Box::new(Ast::Paren(Box::new(gen(r,d-1,sheets))))),6=>Ast::Paren(Box::new(gen(r,d-1,sheets))),
        7..=9=>{ let n=r.range(1,3); Ast::Func(*r.pick(&["SUM","IF","MAX","INDEX","LOG10","VLOOKUP"]),(0..n).map(|_|gen(r,d-1,sheets)).collect(),r.below(5)==0) },
        10=>Ast::Func("SUM",vec![Ast::Isect(Box::new(Ast::Ref(gen_ref(r,sheets))),Box::new(Ast::Ref(gen_ref(r,sheets))))],false),_=>Ast::Func("SUM",vec![Ast::Union(vec![Ast::Ref(gen_ref(r,sheets)),Ast::Ref(gen_ref(r,sheets))])],false) } }
fn norm(s:&str)->String{ // drop blanks adjacent to operator/separator/paren outside literals
    let ch:Vec<char>=s.chars().collect(); let mut out=String::new(); let mut i=0; let mut in_s=false; let mut in_q=false; let ops="+-*/^&=<>,(){};";
    while i<ch.len(){ let c=ch[i]; if in_s { out.push(c); if c=='"' { if i+1<ch.len()&&ch[i+1]=='"' { out.push('"'); i+=1; } else { in_s=false; } } i+=1; continue; } if in_q { out.push(c); if c=='\'' { if i+1<ch.len()&&ch[i+1]=='\'' { out.push('\''); i+=1; } else { in_q=false; } } i+=1; continue; }
        if c=='"' {in_s=true; out.push(c); i+=1; continue;} if c=='\'' {in_q=true; out.push(c); i+=1; continue;}
        if c==' ' { let mut j=i; while j<ch.len()&&ch[j]==' ' {j+=1;} let prev=out.chars().last(); let next=ch.get(j).copied(); let drop= prev.map(|p|ops.contains(p)).unwrap_or(true) || next.map(|n|ops.contains(n)||n=='%').unwrap_or(true); if !drop { out.push(' '); } i=j; continue; }
        out.push(c); i+=1; } out }
fn main(){
    if std::env::var("LOUD").is_err() { std::panic::set_hook(Box::new(|_|{})); }
    let args:Vec<String>=std::env::args().collect(); let seed:u64=args.get(1).map(|s|s.parse().unwrap()).unwrap_or(1); let ncases:u64=args.get(2).map(|s|s.parse().unwrap()).unwrap_or(300);
    let sheets:Vec<String>=vec!["Sheet1".into(),"Data2".into(),"My Sheet".into()];
    let mut by_feat:BTreeMap<String,(u64,u64)>=BTreeMap::new(); let mut clean=(0u64,0u64); let mut examples:BTreeMap<String,String>=BTreeMap::new(); let (mut tot,mut bad)=(0u64,0u64);
    let skip:BTreeSet<&str>=std::env::var("SKIP").unwrap_or_default().split(',').map(|s|Box::leak(s.to_string().into_boxed_str()) as &str).collect();
    for case in 0..ncases { let mut rng=Rng(seed*9_000_011+case);
        let mut book=new_file(); book.new_sheet("Data2").unwrap(); book.new_sheet("My Sheet").unwrap();
        let mut placed:Vec<(usize,u32,u32,Ast,BTreeSet<&'static str>)>=vec![];
        for _ in 0..6 { let si=rng.below(3) as usize; let (c,r)=(rng.range(W+2,W+6),rng.range(1,H)); let ast=gen(&mut rng,3,&sheets); let mut f=BTreeSet::new(); features(&ast,&mut f);
            if f.iter().any(|x|skip.contains(x)) { continue; }
            if placed.iter().any(|p|p.0==si&&p.1==c&&p.2==r){continue;}
            let text=render(&ast,&Ctx{own:&sheets[si],edited:"",edit:None}); book.get_sheet_mut(&si).unwrap().get_cell_mut((c,r)).set_formula(text); placed.push((si,c,r,ast,f)); }
        let ei=rng.below(3) as usize; let e=Edit{is_row:rng.below(2)==0,insert:rng.below(2)==0,p:rng.range(1,H.min(W)),n:rng.range(1,3)};
        let name=sheets[ei].clone();
        let res=catch_unwind(AssertUnwindSafe(||{ match (e.is_row,e.insert){(true,true)=>book.insert_new_row(&name,&e.p,&e.n),(true,false)=>book.remove_row(&name,&e.p,&e.n),(false,true)=>book.insert_new_column_by_index(&name,&e.p,&e.n),(false,false)=>book.remove_column_by_index(&name,&e.p,&e.n)} }));
        for (si,c,r,ast,f) in &placed { tot+=1;
            // where is the formula cell now?
            let (mut c2,mut r2)=(*c,*r); if *si==ei { if e.is_row { match map1(r2,&e){Some(x)=>r2=x,None=>continue} } else { match map1(c2,&e){Some(x)=>c2=x,None=>continue} } }
            let exp=render(ast,&Ctx{own:&sheets[*si],edited:&name,edit:Some(e)});
            let got= if res.is_err() {"<PANIC>".to_string()} else { book.get_sheet(si).unwrap().get_cell((c2,r2)).map(|x|x.get_formula().to_string()).unwrap_or("<MISSING>".into()) };
            // a deleted ref feature
            let mut f=f.clone(); if exp.contains("#REF!") && !render(ast,&Ctx{own:&sheets[*si],edited:"",edit:None}).contains("#REF!") { f.insert("deleted-target"); }
            let ok=norm(&exp)==norm(&got); if !ok {bad+=1;}
            for x in &f { let en=by_feat.entry(x.to_string()).or_insert((0,0)); en.0+=1; if !ok {en.1+=1; examples.entry(x.to_string()).or_insert(format!("[{} {} p={} n={} on {}] exp {} got {}", if e.insert {"ins"} else {"rem"}, if e.is_row {"row"} else {"col"}, e.p,e.n,name,exp,got)); } }
            let dirty:BTreeSet<&str>=["abs","sheetq-quoted","str-dq","str-sq","array","unary-plus","name-reflike","name","wholecol","wholerow","deleted-target","errlit"].into_iter().collect();
            if !f.iter().any(|x|dirty.contains(x)) { clean.0+=1; if !ok { clean.1+=1; examples.entry("CLEAN".into()).or_insert(format!("[{} {} p={} n={} on {} own {}] exp {} got {}", if e.insert {"ins"} else {"rem"}, if e.is_row {"row"} else {"col"}, e.p,e.n,name,sheets[*si],exp,got)); } }
        } }
    println!("formulas {} mismatches {} | clean subset {} mismatches {}",tot,bad,clean.0,clean.1);
    for (k,(n,b)) in &by_feat { println!("  {:16} seen {:6} bad {:6}  {}",k,n,b,examples.get(k).map(|s|s.chars().take(170).collect::<String>()).unwrap_or_default()); }
    if let Some(e)=examples.get("CLEAN") { println!("  CLEAN e.g. {}",e); }
}
