import sys, collections
from decimal import Decimal, ROUND_HALF_UP, getcontext
getcontext().prec=60
def expect(vrepr, pat):
    x=Decimal(vrepr)   # shortest repr of the f64 (Rust {:?} prints shortest round-trip, maybe with e-notation)
    if pat=='General': return None
    pct=pat.endswith('%'); p=pat.rstrip('%'); grp=p.startswith('#,##')
    dec=len(p.split('.')[1]) if '.' in p else 0
    if pct: x=x*100
    q=x.quantize(Decimal(1).scaleb(-dec), rounding=ROUND_HALF_UP)
    neg=q.is_signed() and (q!=0 or x<0)
    s=format(abs(q),'f')
    ip,_,fp=s.partition('.')
    if grp: ip='{:,}'.format(int(ip))
    out=('-' if x<0 else '')+ip+('.'+fp if dec else '')+('%' if pct else '')
    return out
def cls(vrepr,pat,exp,got):
    if got=='<PANIC>': return 'panic'
    x=Decimal(vrepr); p=pat.rstrip('%'); dec=len(p.split('.')[1]) if '.' in p else 0
    if pat.endswith('%'): return 'percent'
    s=format(abs(x),'f'); fp=s.partition('.')[2]
    if dec==0: return 'int-pattern(no rounding)' if fp else 'int-pattern(other)'
    if len(fp)<dec: return 'fraction-shorter(pad)'
    if len(fp)==dec: return 'fraction-equal'
    # longer
    head=fp[:dec]
    if head.startswith('0'): return 'fraction-longer+leading-zero'
    if set(head)=={'9'} and fp[dec]>='5': return 'fraction-longer+carry'
    return 'fraction-longer(other)'
tot=0; bad=collections.Counter(); seen=collections.Counter(); ex={}
for line in sys.stdin:
    i,v,pat,got=line.rstrip('\n').split('\t'); tot+=1
    e=expect(v,pat)
    if e is None:
        ok = Decimal(got)==Decimal(v) if got!='<PANIC>' else False; c='general'
    else:
        ok = (got==e); c=cls(v,pat,e,got)
    seen[c]+=1
    if not ok: bad[c]+=1; ex.setdefault(c,(v,pat,e,got))
print('pairs',tot,'bad',sum(bad.values()))
for c in sorted(seen): print('  %-34s seen %6d bad %6d  e.g. %s'%(c,seen[c],bad[c],ex.get(c)))
