#define _GNU_SOURCE
#include <dlfcn.h>
#include <errno.h>
#include <stdio.h>
#include <stdlib.h>
#include <string.h>
#include <unistd.h>
#include <sys/types.h>
static ssize_t (*real_write)(int, const void*, size_t);
static int count = 0;
static int match_fd(int fd){
    const char* pat = getenv("UVF_PATH_SUBSTR"); if(!pat) return 0;
    char link[64], buf[4096]; snprintf(link,sizeof link,"/proc/self/fd/%d",fd);
    ssize_t n = readlink(link, buf, sizeof buf-1); if(n<=0) return 0; buf[n]=0;
    return strstr(buf, pat)!=NULL;
}
ssize_t write(int fd, const void* b, size_t n){
    if(!real_write) real_write = dlsym(RTLD_NEXT,"write");
    if(match_fd(fd)){
        const char* k = getenv("UVF_FAIL_AT"); int at = k?atoi(k):-1;
        int c = __sync_fetch_and_add(&count,1);
        if(at>=0 && c>=at){ errno = ENOSPC; return -1; }
    }
    return real_write(fd,b,n);
}
