// prototype: cooperative scheduler over cfg(umya_verif) yield points, exhaustive DFS of interleavings
use umya_spreadsheet::*;
use std::sync::{Arc,Mutex,Condvar};
use std::cell::Cell;
use std::collections::BTreeSet;
thread_local!{ static SAVER: Cell<Option<usize>> = Cell::new(None); }
#[derive(Default)] struct St{ waiting:Vec<bool>, done:Vec<bool>, granted:Option<usize>, log:Vec<(usize,&'static str,String,usize)>, controlled:bool }
struct Sched{ m:Mutex<St>, cv:Condvar }
fn run_schedule(books:&[Arc<Spreadsheet>], sched:&Arc<Sched>, prefix:&[usize]) -> (Vec<usize>,Vec<usize>,Vec<Vec<u8>>,Vec<(usize,&'static str,String,usize)>) {
    let n=books.len();
    { let mut st=sched.m.lock().unwrap(); *st=St{waiting:vec![false;n],done:vec![false;n],granted:None,log:vec![],controlled:true}; }
    let mut hs=vec![];
    for (i,b) in books.iter().enumerate(){ let b=b.clone(); let s=sched.clone(); hs.push(std::thread::spawn(move||{ SAVER.with(|c|c.set(Some(i))); let mut buf=Vec::new(); let r=std::panic::catch_unwind(std::panic::AssertUnwindSafe(||writer::xlsx::write_writer_light(&*b,&mut buf))); let mut st=s.m.lock().unwrap(); st.done[i]=true; s.cv.notify_all(); drop(st); (r.is_ok(),buf) })); }
    let mut choices=vec![]; let mut options=vec![]; let mut step=0;
    loop {
        let mut st=sched.m.lock().unwrap();
        let (g,timeout)=sched.cv.wait_timeout_while(st,std::time::Duration::from_secs(3),|st| !(0..n).all(|i|st.waiting[i]||st.done[i]) || st.granted.is_some()).unwrap(); st=g;
        if timeout.timed_out(){ eprintln!("state waiting={:?} done={:?} granted={:?} log={:?}",st.waiting,st.done,st.granted,st.log); panic!("WATCHDOG: no quiescence (inconclusive)"); }
        let ready:Vec<usize>=(0..n).filter(|&i|st.waiting[i]&&!st.done[i]).collect();
        if ready.is_empty(){ break; }
        let pick_idx = if step<prefix.len() { prefix[step] } else { 0 };
        options.push(ready.len()); choices.push(pick_idx); step+=1;
        st.granted=Some(ready[pick_idx]); sched.cv.notify_all();
    }
    let mut outs=vec![]; for h in hs { let (ok,buf)=h.join().unwrap(); assert!(ok,"saver panicked"); outs.push(buf); }
    let log=std::mem::take(&mut sched.m.lock().unwrap().log);
    (choices,options,outs,log)
}
fn texts(buf:&[u8])->Vec<(String,String)>{ let b=reader::xlsx::read_reader(std::io::Cursor::new(buf.to_vec()),true).unwrap(); b.get_sheet(&0).unwrap().get_cell_collection_sorted().iter().map(|c|(c.get_coordinate().get_coordinate(),c.get_value().to_string())).collect() }
fn main(){
    let k:usize=std::env::args().nth(1).map(|s|s.parse().unwrap()).unwrap_or(3);
    let mode=std::env::args().nth(2).unwrap_or("overlap".into());
    let sched=Arc::new(Sched{m:Mutex::new(St::default()),cv:Condvar::new()});
    { let s=sched.clone(); verif_hooks::set_hook(Some(Arc::new(move|tag,text,n|{
        let id=match SAVER.with(|c|c.get()){Some(i)=>i,None=>return};
        let mut st=s.m.lock().unwrap(); if !st.controlled {return;}
        st.log.push((id,tag,text.to_string(),n));
        if tag=="sst.reg.done" { return; }
        st.waiting[id]=true; s.cv.notify_all();
        let mut st=s.cv.wait_while(st,|st|st.granted!=Some(id)).unwrap();
        st.granted=None; st.waiting[id]=false; s.cv.notify_all();
    }))); }
    let mut a=new_file(); for i in 0..k { a.get_sheet_mut(&0).unwrap().get_cell_mut((1u32,(i+1) as u32)).set_value_string(format!("A-{}",i)); }
    let mut b=a.clone(); for i in 0..k { let v= match mode.as_str(){"equal"=>format!("A-{}",i),"disjoint"=>format!("B-{}",i),_=> if i%2==0 {format!("A-{}",i)} else {format!("B-{}",i)} }; b.get_sheet_mut(&0).unwrap().get_cell_mut((1u32,(i+1) as u32)).set_value_string(v); }
    let solo:Vec<Vec<(String,String)>>=[&a,&b].iter().map(|bk|{ let mut buf=Vec::new(); sched.m.lock().unwrap().controlled=false; writer::xlsx::write_writer_light(*bk,&mut buf).unwrap(); texts(&buf) }).collect();
    let books=vec![Arc::new(a),Arc::new(b)];
    let t0=std::time::Instant::now(); let mut prefix:Vec<usize>=vec![]; let mut nsched=0u64; let mut distinct=BTreeSet::new(); let mut viol=0u64; let mut cons_viol=0u64; let mut maxlen=0;
    loop {
        let (choices,options,outs,log)=run_schedule(&books,&sched,&prefix); nsched+=1; maxlen=maxlen.max(choices.len());
        let sig:Vec<usize>=log.iter().filter(|e|e.1!="sst.reg.done").map(|e|e.0).collect(); distinct.insert(sig);
        for (i,o) in outs.iter().enumerate(){ if texts(o)!=solo[i]{ viol+=1; if viol<3 { println!("VIOLATION saver {} schedule {:?}: {:?} vs solo {:?}",i,choices,texts(o),solo[i]); } } }
        // conservation: every (saver,text,idx) registration must be consistent across the run: same idx => same text
        let mut by_idx:std::collections::BTreeMap<usize,String>=Default::default(); for e in log.iter().filter(|e|e.1=="sst.reg.done"){ if let Some(t)=by_idx.get(&e.3){ if *t!=e.2 { cons_viol+=1; } } else { by_idx.insert(e.3,e.2.clone()); } }
        // next schedule (DFS): bump last choice that has an unexplored sibling
        let mut c=choices; let mut i=c.len(); let mut advanced=false;
        while i>0 { i-=1; if c[i]+1<options[i]{ c[i]+=1; c.truncate(i+1); advanced=true; break; } }
        if !advanced { break; } prefix=c;
    }
    println!("k={} mode={} schedules run {} distinct interleavings {} max steps {} output violations {} index-conservation violations {} in {:?}",k,mode,nsched,distinct.len(),maxlen,viol,cons_viol,t0.elapsed());
}
