use umya_spreadsheet::*;
struct Rng(u64);
impl Rng{ fn next(&mut self)->u64{ self.0=self.0.wrapping_add(0x9e3779b97f4a7c15); let mut z=self.0; z=(z^(z>>30)).wrapping_mul(0xbf58476d1ce4e5b9); z=(z^(z>>27)).wrapping_mul(0x94d049bb133111eb); z^(z>>31) } fn below(&mut self,n:u64)->u64{ self.next()%n } }
fn main(){
    std::panic::set_hook(Box::new(|_|{}));
    let n:u64=std::env::args().nth(1).map(|s|s.parse().unwrap()).unwrap_or(20000);
    let pats=["0","0.0","0.00","0.000","0.000000","#,##0","#,##0.0","#,##0.00","0%","0.0%","0.00%","General"];
    let mut rng=Rng(42);
    let mut book=new_file();
    for i in 0..n {
        // decimal string with <=15 significant digits
        let digits=1+rng.below(15) as usize; let mut s=String::new(); for k in 0..digits { let d=match rng.below(6){0=>9,1=>0,2=>5,_=>rng.below(10)}; s.push((b'0'+ if k==0 && d==0 {1} else {d} as u8) as char); }
        let point=rng.below((digits+8) as u64) as i64 - 7; // position of decimal point relative to start
        let txt= if point<=0 { format!("0.{}{}", "0".repeat((-point) as usize), s) } else if (point as usize)>=digits { format!("{}{}", s, "0".repeat(point as usize-digits)) } else { format!("{}.{}", &s[..point as usize], &s[point as usize..]) };
        let txt= if rng.below(4)==0 { format!("-{}",txt) } else { txt };
        let v:f64=txt.parse().unwrap(); let pat=pats[rng.below(pats.len() as u64) as usize];
        let ws=book.get_sheet_mut(&0).unwrap(); let c=ws.get_cell_mut("A1"); c.set_value_number(v); c.get_style_mut().get_number_format_mut().set_format_code(pat);
        let out=std::panic::catch_unwind(std::panic::AssertUnwindSafe(||book.get_sheet(&0).unwrap().get_formatted_value("A1")));
        println!("{}\t{:?}\t{}\t{}", i, v, pat, match out {Ok(s)=>s,Err(_)=>"<PANIC>".into()});
    }
}
