#!/bin/sh
# Build the monitoring harness offline from files on disk (cargo registry cache + /repo).
set -e
cd "$(dirname "$0")"
export CARGO_NET_OFFLINE=true
mkdir -p target work evidence replays
cp /repo/Cargo.lock harness/Cargo.lock
(cd harness && RUSTFLAGS="--cfg umya_verif" cargo build --offline --target-dir ../target)
if [ -f faultfs/shim.c ]; then gcc -O2 -shared -fPIC -o faultfs/shim.so faultfs/shim.c -ldl; fi
echo setup done
