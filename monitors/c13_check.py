"""C13 monitor: fault enumeration at the OS boundary around the real path-saving APIs.
Injectors: (1) RLIMIT_FSIZE = k with SIGXFSZ ignored  -> EFBIG exactly at byte k of the file being written;
           (2) LD_PRELOAD shim failing the j-th write / rename / open on the destination's paths (ENOSPC, EIO, short writes);
           (4) SIGKILL at random instants of a child that alternates saves of two workbooks;
           (5) a concurrent observer re-reading the destination during healthy saves.
Oracle: outcome classifier over (reported result / exit status, destination bytes, directory listing):
the destination is either what it was before (old bytes / absent) or the complete new file, 'ok' implies new,
and the call never panics. (3), failing caller-supplied sinks, runs in-process in the harness (c13sink)."""
import json, os, random, resource, shutil, signal, subprocess, sys, time
from concurrent.futures import ThreadPoolExecutor
sys.path.insert(0, os.path.dirname(os.path.abspath(__file__)))
import offcrypto

VERIF = os.path.dirname(os.path.dirname(os.path.abspath(__file__)))
UVH = os.path.join(VERIF, "target", "debug", "uvh")
SHIM = os.path.join(VERIF, "faultfs", "shim.so")
EXT = {"xlsx": "xlsx", "xlsx_light": "xlsx", "csv": "csv", "password": "xlsx", "password_light": "xlsx"}


def run_save(api, size, variant, path, fsize=None, env_extra=None, timeout=120):
    def pre():
        signal.signal(signal.SIGXFSZ, signal.SIG_IGN)
        if fsize is not None:
            resource.setrlimit(resource.RLIMIT_FSIZE, (fsize, fsize))
    env = dict(os.environ)
    if env_extra:
        env.update(env_extra)
    try:
        p = subprocess.run([UVH, "c13save", "--api", api, "--size", size, "--variant", variant, "--path", path],
                           stdout=subprocess.PIPE, stderr=subprocess.PIPE, text=True, timeout=timeout, preexec_fn=pre, env=env)
    except subprocess.TimeoutExpired:
        return "timeout", ""
    out = p.stdout.strip()
    if p.returncode == 0 and out.startswith("RESULT ok"):
        return "ok", ""
    if p.returncode == 0 and out.startswith("RESULT err"):
        return "err", out[11:]
    if p.returncode == 101:
        return "panic", (p.stderr or "")[-300:]
    return "died", "exit status %s %s" % (p.returncode, (p.stderr or "")[-200:])


def is_complete_new(api, data, ref_new, ref_plain):
    if api.startswith("password"):
        try:
            r = offcrypto.decrypt_file(data, "pw-c13")
            return bool(r.get("ok")) and (ref_plain is None or len(r["package"]) == len(ref_plain))
        except Exception:
            return False
    return data == ref_new


class Ctx:
    def __init__(self, work, seed):
        self.work, self.rng = work, random.Random(seed)
        self.groups = {}
        self.counters = {}
        self.points = 0
        self.distinct = set()
        self.samples = []
        self.inconclusive = []

    def count(self, k, n=1):
        self.counters[k] = self.counters.get(k, 0) + n

    def div(self, sig, detail, replay):
        e = self.groups.setdefault(sig, [0, []])
        e[0] += 1
        if len(e[1]) < 3:
            e[1].append({"cmd": "c13", "seed": 0, "case": 0, "sig": sig, "features": [], "detail": detail, "replay_fault": replay})


def classify(cx, api, size, injector, point, preexisting, status, msg, dest, old, ref_new, ref_plain):
    """the heart of the monitor"""
    cx.points += 1
    cx.distinct.add((api, size, injector, str(point), preexisting))
    cx.count("status." + status)
    cx.count("injector." + injector)
    replay = {"api": api, "size": size, "injector": injector, "point": point, "preexisting": preexisting}
    where = "%s/%s %s@%s preexisting=%s" % (api, size, injector, point, preexisting)
    exists = os.path.exists(dest)
    data = open(dest, "rb").read() if exists else None
    leftovers = [n for n in os.listdir(os.path.dirname(dest)) if n != os.path.basename(dest)]
    if leftovers:
        cx.count("leftover-temporary-files")
    if status in ("timeout",):
        cx.inconclusive.append(where)
        return
    if status in ("panic", "died"):
        cx.div("save-panics:%s" % api, "%s: the call did not return (%s) %s" % (where, status, msg[:200]), replay)
    if status == "ok":
        if not exists or not is_complete_new(api, data, ref_new, ref_plain):
            cx.div("reports-success-with-incomplete-destination:%s" % api, "%s: returned Ok but the destination holds %s of %d bytes" % (where, len(data) if exists else "no file instead", len(ref_new)), replay)
        else:
            cx.count("outcome.ok-complete")
        return
    # error / panic / death: the destination must be untouched (or, at most, the complete new file)
    if preexisting:
        if not exists:
            cx.div("destination-lost:%s" % api, "%s: the existing destination is gone after a failed save" % where, replay)
        elif data == old:
            cx.count("outcome.failed-old-intact")
        elif is_complete_new(api, data, ref_new, ref_plain):
            cx.count("outcome.failed-but-new-complete")
        else:
            cx.div("destination-torn:%s" % api, "%s: after a failed save the destination holds %d bytes that are neither the old (%d) nor the complete new file (%d)" % (where, len(data), len(old), len(ref_new)), replay)
    else:
        if exists and not is_complete_new(api, data, ref_new, ref_plain):
            cx.div("partial-destination-created:%s" % api, "%s: after a failed save a %d-byte partial destination exists" % (where, len(data)), replay)
        else:
            cx.count("outcome.failed-nothing-created")


def reference(cx, api, size):
    d = os.path.join(cx.work, "ref-%s-%s" % (api, size))
    os.makedirs(d, exist_ok=True)
    out = {}
    for v in ("A", "B"):
        p = os.path.join(d, "%s.%s" % (v, EXT[api]))
        st, msg = run_save(api, size, v, p)
        if st != "ok":
            raise RuntimeError("healthy save failed: %s %s %s %s" % (api, size, st, msg))
        out[v] = open(p, "rb").read()
    # determinism of healthy saves (needed to recognise the complete new file byte-wise)
    if not api.startswith("password"):
        p2 = os.path.join(d, "B2.%s" % EXT[api])
        run_save(api, size, "B", p2)
        if open(p2, "rb").read() != out["B"]:
            raise RuntimeError("healthy saves of %s/%s are not byte-deterministic" % (api, size))
    plain = None
    if api.startswith("password"):
        plain = offcrypto.decrypt_file(out["B"], "pw-c13")["package"]
    return out["A"], out["B"], plain


def one_point(cx, api, size, injector, point, preexisting, old, ref_new, ref_plain, idx):
    d = os.path.join(cx.work, "pt-%s-%s-%s-%d" % (api, size, injector, idx))
    shutil.rmtree(d, ignore_errors=True)
    os.makedirs(d)
    dest = os.path.join(d, "dest.%s" % EXT[api])
    if idx % 7 == 3 and injector in ("fsize", "shim"):
        # a destination whose name is as long as a file name may be: the temporary sibling (<name>.<ext>tmp) cannot be created
        dest = os.path.join(d, "n" * (254 - len(EXT[api])) + "." + EXT[api])
        cx.count("destination-with-255-byte-name")
    if preexisting:
        with open(dest, "wb") as f:
            f.write(old)
        if idx % 4 == 1:
            # the existing destination is read-only (the directory is writable, so it can still be replaced)
            os.chmod(dest, 0o444)
            cx.count("preexisting-destination-read-only")
    if injector == "fsize":
        st, msg = run_save(api, size, "B", dest, fsize=point)
    elif injector == "stale-tmp":
        # no fault now, but an earlier save died and left its temporary sibling (<name>.<ext>tmp) behind
        with open(dest + "tmp", "wb") as f:
            f.write(b"\xaa" * (len(ref_new) + 7001 if point == "longer" else 10))
        st, msg = run_save(api, size, "B", dest)
    else:
        op, at, err, short = point
        env = {"LD_PRELOAD": SHIM, "UVF_PATH_SUBSTR": d, "UVF_OP": op, "UVF_FAIL_AT": str(at), "UVF_ERRNO": err}
        if short:
            env["UVF_SHORT"] = "1"
        st, msg = run_save(api, size, "B", dest, env_extra=env)
    classify(cx, api, size, injector, point, preexisting, st, msg, dest, old, ref_new, ref_plain)
    if len(cx.samples) < 4:
        cx.samples.append({"api": api, "size": size, "injector": injector, "point": point, "preexisting": preexisting, "status": st})
    shutil.rmtree(d, ignore_errors=True)


def enumerate_faults(cx, tier):
    apis = ["xlsx", "xlsx_light", "csv", "password", "password_light"]
    sizes = ["tiny", "small", "edge", "large"]
    jobs = []
    for api in apis:
        for size in sizes:
            if api.startswith("password") and size == "large" and tier == "quick":
                continue
            if api == "password_light" and size != "small" and tier == "quick":
                continue
            old, new, plain = reference(cx, api, size)
            n = len(new)
            cx.count("reference-size.%s.%s" % (api, size), n)
            if tier == "thorough" and n <= 12000:
                offsets = list(range(0, n + 1))
            else:
                budget = 40 if tier == "quick" else 1500
                pts = {0, 1, n - 1, n, n + 1, 4095, 4096, 4097, 8191, 8192, 8193, 512, 513}
                while len(pts) < budget and len(pts) < n:
                    pts.add(cx.rng.randrange(0, n + 1))
                offsets = sorted(p for p in pts if 0 <= p <= n + 1)
            if api.startswith("password"):
                offsets = offsets[::3] if tier == "quick" else offsets[::2]
            for i, k in enumerate(offsets):
                jobs.append((api, size, "fsize", k, (i % 2 == 0), old, new, plain))
            # shim: j-th write / rename / open
            nshim = 6 if tier == "quick" else 40
            for j in range(nshim):
                err = ["ENOSPC", "EIO", "EDQUOT"][j % 3]
                jobs.append((api, size, "shim", ("write", j, err, j % 2 == 1), True, old, new, plain))
            for k, which in enumerate(("longer", "shorter")):
                jobs.append((api, size, "stale-tmp", which, k == 0, old, new, plain))
            jobs.append((api, size, "shim", ("rename", 0, "EIO", False), True, old, new, plain))
            jobs.append((api, size, "shim", ("open", 0, "ENOSPC", False), True, old, new, plain))
            jobs.append((api, size, "shim", ("open", 0, "ENOSPC", False), False, old, new, plain))
    with ThreadPoolExecutor(max_workers=16) as ex:
        futs = [ex.submit(one_point, cx, *j, i) for i, j in enumerate(jobs)]
        for f in futs:
            f.result()


def kill_runs(cx, tier):
    """SIGKILL at random instants of a child that alternates saves of A and B"""
    n = 24 if tier == "quick" else 400
    for api, size in (("xlsx", "small"), ("xlsx", "large"), ("csv", "small"), ("xlsx_light", "edge")):
        old, new, _ = reference(cx, api, size)
        for i in range(n // 4):
            d = os.path.join(cx.work, "kill-%s-%s-%d" % (api, size, i))
            shutil.rmtree(d, ignore_errors=True)
            os.makedirs(d)
            dest = os.path.join(d, "dest.%s" % EXT[api])
            with open(dest, "wb") as f:
                f.write(old)
            p = subprocess.Popen([UVH, "c13loop", "--api", api, "--size", size, "--path", dest, "--count", "100000"], stdout=subprocess.DEVNULL, stderr=subprocess.DEVNULL)
            time.sleep(cx.rng.uniform(0.005, 0.12))
            p.kill()
            p.wait()
            cx.points += 1
            cx.distinct.add(("kill", api, size, i))
            cx.count("injector.sigkill")
            data = open(dest, "rb").read() if os.path.exists(dest) else None
            if data is None:
                cx.div("destination-lost:%s" % api, "kill %s/%s run %d: destination gone" % (api, size, i), {"injector": "sigkill"})
            elif data not in (old, new):
                cx.div("destination-torn:%s" % api, "kill %s/%s run %d: destination holds %d bytes, neither complete A (%d) nor complete B (%d)" % (api, size, i, len(data), len(old), len(new)), {"injector": "sigkill"})
            else:
                cx.count("outcome.kill-A" if data == old else "outcome.kill-B")
            shutil.rmtree(d, ignore_errors=True)


def observer_runs(cx, tier):
    """re-read the destination in a tight loop while a child performs healthy alternating saves"""
    seconds = 3.0 if tier == "quick" else 30.0
    for api, size in (("xlsx", "small"), ("xlsx", "large"), ("csv", "edge")):
        old, new, _ = reference(cx, api, size)
        d = os.path.join(cx.work, "obs-%s-%s" % (api, size))
        shutil.rmtree(d, ignore_errors=True)
        os.makedirs(d)
        dest = os.path.join(d, "dest.%s" % EXT[api])
        with open(dest, "wb") as f:
            f.write(old)
        p = subprocess.Popen([UVH, "c13loop", "--api", api, "--size", size, "--path", dest, "--count", "100000000"], stdout=subprocess.DEVNULL, stderr=subprocess.DEVNULL)
        t_end = time.time() + seconds / 3
        reads = seen_a = seen_b = 0
        try:
            while time.time() < t_end:
                try:
                    with open(dest, "rb") as f:
                        data = f.read()
                except FileNotFoundError:
                    cx.div("observer-sees-no-file:%s" % api, "%s/%s: destination absent during a save" % (api, size), {"injector": "observer"})
                    break
                reads += 1
                if data == old:
                    seen_a += 1
                elif data == new:
                    seen_b += 1
                else:
                    cx.div("observer-sees-torn-file:%s" % api, "%s/%s: read %d bytes, neither complete A (%d) nor B (%d)" % (api, size, len(data), len(old), len(new)), {"injector": "observer"})
                    break
        finally:
            p.kill()
            p.wait()
        cx.points += reads
        cx.count("observer.reads", reads)
        cx.count("observer.saw-A", seen_a)
        cx.count("observer.saw-B", seen_b)
        cx.distinct.add(("observer", api, size))
        if seen_a == 0 or seen_b == 0:
            cx.inconclusive.append("observer %s/%s saw only one of the two files (%d/%d)" % (api, size, seen_a, seen_b))
        shutil.rmtree(d, ignore_errors=True)


def half_read_runs(cx, tier):
    """a reader that has the destination open and has read half of it while a complete save takes place must end up with
    exactly the old or exactly the new bytes; the destination is a regular file or a symbolic link to one"""
    combos = [("xlsx", "small"), ("xlsx", "large"), ("xlsx_light", "edge"), ("csv", "small"), ("password", "small"), ("password_light", "small")] + ([("csv", "large"), ("xlsx_light", "large"), ("password_light", "large")] if tier == "thorough" else [])
    for api, size in combos:
        old, new, plain = reference(cx, api, size)
        for kind in ("regular", "symlink"):
            d = os.path.join(cx.work, "half-%s-%s-%s" % (api, size, kind))
            shutil.rmtree(d, ignore_errors=True)
            os.makedirs(d)
            dest = os.path.join(d, "dest.%s" % EXT[api])
            if kind == "symlink":
                real = os.path.join(d, "real.%s" % EXT[api])
                with open(real, "wb") as f:
                    f.write(old)
                os.symlink(real, dest)
            else:
                with open(dest, "wb") as f:
                    f.write(old)
            with open(dest, "rb") as rd:
                first = rd.read(len(old) // 2)
                st, msg = run_save(api, size, "B", dest)
                rest = rd.read()
            seen = first + rest
            cx.points += 1
            cx.distinct.add(("half-read", api, size, kind))
            cx.count("injector.half-read-" + kind)
            where = "%s/%s half-read destination=%s" % (api, size, kind)
            if st != "ok":
                cx.div("healthy-save-failed:%s" % api, "%s: %s %s" % (where, st, msg[:200]), {"injector": "half-read"})
            elif seen != old and not (api.startswith("password") and False) and not is_complete_new(api, seen, new, plain):
                cx.div("reader-sees-mixed-file:%s" % api, "%s: a reader that had read half of the old file ended up with %d bytes that are neither the old (%d) nor the new file (%d)" % (where, len(seen), len(old), len(new)), {"injector": "half-read"})
            else:
                after = open(dest, "rb").read()
                if not is_complete_new(api, after, new, plain):
                    cx.div("reports-success-with-incomplete-destination:%s" % api, "%s: returned Ok but the destination holds %d of %d bytes" % (where, len(after), len(new)), {"injector": "half-read"})
                else:
                    cx.count("outcome.half-read-consistent")
            shutil.rmtree(d, ignore_errors=True)


def check(work, tier, seed):
    cx = Ctx(work, seed)
    if not os.path.exists(SHIM):
        subprocess.check_call(["gcc", "-O2", "-shared", "-fPIC", "-o", SHIM, os.path.join(VERIF, "faultfs", "shim.c"), "-ldl"])
    enumerate_faults(cx, tier)
    kill_runs(cx, tier)
    observer_runs(cx, tier)
    half_read_runs(cx, tier)
    return cx


def replay(work, rp):
    cx = Ctx(work, 0)
    api, size = rp.get("api", "xlsx"), rp.get("size", "small")
    if rp.get("injector") in ("fsize", "shim", "stale-tmp"):
        old, new, plain = reference(cx, api, size)
        pt = tuple(rp["point"]) if rp["injector"] == "shim" else rp["point"]
        one_point(cx, api, size, rp["injector"], pt, rp.get("preexisting", True), old, new, plain, 0)
    return cx
