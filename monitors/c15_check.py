"""C15 monitor: recompute the ECMA-376 password hash (Part 1, 18.2.29 / 18.3.1.85: H0 = H(salt || UTF-16LE pw),
Hi = H(Hi-1 || LE32(i))) with hashlib and scan the saved package for clear-text or legacy password material."""
import base64, hashlib, json, os, re, struct, sys, zipfile
from multiprocessing import Pool

LEGACY = re.compile(rb'<(sheetProtection|workbookProtection)\b[^>]*\b(password|workbookPassword|revisionsPassword)="')


def spin_hash(password, salt, spin, alg='sha512'):
    h = hashlib.new(alg, salt + password.encode('utf-16-le')).digest()
    for i in range(spin):
        h = hashlib.new(alg, h + struct.pack('<I', i)).digest()
    return h


def check_one(arg):
    out_dir, line = arg
    c = json.loads(line)
    divs = []
    if c['status'] != 'ok':
        return c, [('api-failed:' + c['kind'], c['status'][:300])]
    b, a = c['before'], c['after']
    for tag, p in (('model', b), ('reloaded', a)):
        if p.get('missing'):
            divs.append(('protection-missing:' + tag, c['kind']))
            continue
        if p['alg'] != 'SHA-512':
            divs.append(('algorithm-name', '%s: %r' % (tag, p['alg'])))
            continue
        try:
            salt = base64.b64decode(p['salt'], validate=True)
            stored = base64.b64decode(p['hash'], validate=True)
            spin = int(p['spin'])
        except Exception as e:
            divs.append(('parameters-malformed', '%s: %r %r' % (tag, p, e)))
            continue
        if spin < 1 or len(salt) < 8:
            divs.append(('weak-parameters', '%s: spin %d salt %d bytes' % (tag, spin, len(salt))))
        if spin_hash(c['password'], salt, spin) != stored:
            divs.append(('hash-mismatch:' + tag, '%s password %r salt %s spin %d stored %s' % (c['kind'], c['password'][:24], p['salt'], spin, p['hash'][:24])))
        else:
            for wrong in (c['password'] + 'x', c['password'][1:] if c['password'] else 'a'):
                if wrong != c['password'] and spin_hash(wrong, salt, spin) == stored:
                    divs.append(('other-password-verifies', repr(wrong)))
        if p.get('raw'):
            divs.append(('legacy-raw-password-kept:' + tag, '%s raw=%r' % (c['kind'], p['raw'])))
    if not b.get('missing') and not a.get('missing') and {k: b[k] for k in ('alg', 'salt', 'spin', 'hash')} != {k: a[k] for k in ('alg', 'salt', 'spin', 'hash')}:
        divs.append(('changed-by-save-reload', '%r -> %r' % (b, a)))
    if c.get('first_salt') and c['first_salt'] == b.get('salt'):
        divs.append(('salt-reused', 'two calls produced salt %s' % b.get('salt')))
    z = zipfile.ZipFile(os.path.join(out_dir, 'case-%d.xlsx' % c['case']))
    marker8, marker16 = c['password'].encode('utf-8'), c['password'].encode('utf-16-le')
    for n in z.namelist():
        data = z.read(n)
        m = LEGACY.search(data)
        if m:
            divs.append(('legacy-attribute-in-file', '%s: %s' % (n, m.group(0)[:80])))
        if len(c['password']) >= 8 and (marker8 in data or marker16 in data):
            divs.append(('clear-password-in-file', n))
    return c, divs


def check(out_dir, procs=16):
    lines = [(out_dir, l) for l in open(os.path.join(out_dir, 'cases.jsonl'), encoding='utf-8')]
    groups = {}
    salts = {}
    n = 0

    def div(sig, c, detail):
        e = groups.setdefault(sig, [0, []])
        e[0] += 1
        if len(e[1]) < 3:
            e[1].append({'cmd': 'c15', 'seed': c['seed'], 'case': c['case'], 'sig': sig, 'features': [], 'detail': detail})

    with Pool(procs) as pool:
        for c, divs in pool.imap_unordered(check_one, lines, chunksize=2):
            n += 1
            for sig, d in divs:
                div(sig, c, d)
            s = c['before'].get('salt')
            if s:
                if s in salts:
                    div('salt-reused', c, 'salt %s also produced for case %s' % (s, salts[s]))
                salts[s] = c['case']
    return n, len(salts), groups
