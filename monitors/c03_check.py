"""C03 monitor: what the library loads from a valid file vs the meaning the decoding rules assign to it.
 - generated files: the intent recorded by gen/xlsxgen.py (formulas of shared-formula children are rendered from the AST);
 - corpus files: the independent decoder (monitors/xlsx_decode.py); a shared-formula child whose master the conservative
   shifter cannot handle makes that cell inconclusive, not a violation."""
import glob, json, os, re, struct, sys
from multiprocessing import Pool
HERE = os.path.dirname(os.path.abspath(__file__))
sys.path.insert(0, HERE)
sys.path.insert(0, os.path.join(os.path.dirname(HERE), "gen"))
import xlsx_decode, xlsx_validate, xlsxgen

KIND = {'text': 's', 'rich': 's', 'number': 'n', 'bool': 'b', 'error': 'e', 'blank': ''}
OPS = "+-*/^&=<>,(){};"


def norm_formula(s):
    """blanks adjacent to an operator / separator / parenthesis outside literals may disappear"""
    out, i, n, in_s, in_q = [], 0, len(s), False, False
    while i < n:
        c = s[i]
        if in_s:
            out.append(c)
            if c == '"':
                if i + 1 < n and s[i + 1] == '"':
                    out.append('"'); i += 1
                else:
                    in_s = False
            i += 1; continue
        if in_q:
            out.append(c)
            if c == "'":
                if i + 1 < n and s[i + 1] == "'":
                    out.append("'"); i += 1
                else:
                    in_q = False
            i += 1; continue
        if c == '"': in_s = True
        if c == "'": in_q = True
        if c == ' ':
            j = i
            while j < n and s[j] == ' ':
                j += 1
            prev = out[-1] if out else None
            nxt = s[j] if j < n else None
            if not (prev is None or prev in OPS or nxt is None or nxt in OPS or nxt == '%'):
                out.append(' ')
            i = j; continue
        out.append(c); i += 1
    return ''.join(out)


def fbits(text):
    try:
        return struct.pack('>d', float(text)).hex()
    except Exception:
        return 'unparseable:' + str(text)


def lib_model(d):
    sheets = {}
    names = {}
    for k, v in d.items():
        p = k.split('/')
        if p[0].startswith('sh') and p[0][2:].isdigit():
            s = sheets.setdefault(int(p[0][2:]), {'cells': {}, 'links': {}, 'merges': {}, 'styles': {}, 'tables': {}})
            if p[1] == 'name': s['name'] = v
            elif p[1] == 'cell': s['cells'].setdefault(p[2], {})[p[3]] = v
            elif p[1] == 'link': s['links'][p[2]] = (v[2:], v[0] == 'L')
            elif p[1] == 'merge': s['merges']['/'.join(p[2:])] = int(v)
            elif p[1] == 'style': s['styles'].setdefault(p[2], {})[p[3]] = v
            elif p[1] == 'table': s['tables']['/'.join(p[2:])] = v
        elif p[0] == 'wb' and p[1] == 'name':
            names[(p[2], '/'.join(p[3:]))] = v
    return sheets, names


def compare_cell(divs, where, exp_kind, exp_v, exp_f, lib, tags, f_uncertain=False):
    """exp_kind in text/rich/number/bool/error/'' ; lib = dict(k, v, n, f) from the library dump or None"""
    if lib is None:
        if exp_kind or exp_f:
            divs.append(('cell-missing[%s]%s' % (exp_kind or 'formula-only', tags), '%s expected %r %r' % (where, exp_kind, exp_v[:60])))
        return
    lk = lib.get('k', 'blank')
    same_kind = (KIND.get(lk) == KIND.get(exp_kind, exp_kind)) if exp_kind else lk in ('blank', 'text')
    # an empty cached string and a blank cached value are one equivalence class
    if not exp_kind and lk == 'text' and lib.get('v', '') != '':
        same_kind = False
    if exp_kind in ('text', 'rich') and exp_v == '' and lk == 'blank':
        same_kind = True
    if not same_kind:
        divs.append(('kind[%s->%s]%s' % (exp_kind or 'blank', lk, tags), '%s file means %r %r, library shows %r %r' % (where, exp_kind, exp_v[:60], lk, lib.get('v', '')[:60])))
    elif exp_kind == 'number':
        if fbits(exp_v) != lib.get('n'):
            divs.append(('number%s' % tags, '%s file %r library bits %s (%r)' % (where, exp_v, lib.get('n'), lib.get('v'))))
    elif exp_kind in ('text', 'rich', 'bool', 'error'):
        lv = lib.get('v', '')
        if lv != exp_v:
            if lv.replace('\r\n', '\n').replace('\r', '\n') == exp_v:
                sig = 'text-crlf-not-normalised'
            else:
                sig = 'value[%s]' % exp_kind
            divs.append((sig + tags, '%s file means %r, library shows %r' % (where, exp_v[:80], lv[:80])))
        if exp_kind == 'rich' and lk != 'rich':
            divs.append(('rich-runs-lost' + tags, where))
    lf = lib.get('f', '')
    if not f_uncertain and norm_formula(lf) != norm_formula(exp_f):
        divs.append(('formula%s' % tags, '%s file means %r, library shows %r' % (where, exp_f[:100], lf[:100])))


def check_generated(arg):
    seed, rec = arg
    data, intent = xlsxgen.generate(seed)
    feats = intent['features']
    divs, stats = [], {'cells': 0, 'links': 0, 'names': 0}
    if rec['status'] != 'ok':
        return ('gen', seed, feats, [('load-failed', rec['status'][:300])], stats, None)
    sheets, names = lib_model(rec['dump'])
    # self-consistency of the two oracles (intent vs own decoder) guards against generator bugs
    own = xlsx_decode.decode(data)
    oracle_issue = None
    for i, s in enumerate(intent['sheets']):
        ls = sheets.get(i, {'cells': {}, 'links': {}, 'merges': {}, 'styles': {}, 'tables': {}})
        if ls.get('name') != s['name']:
            divs.append(('sheet-name', 'file %r library %r' % (s['name'], ls.get('name'))))
        for ref, e in s['cells'].items():
            stats['cells'] += 1
            oc = own['sheets'][i]['cells'].get(ref)
            if oc is None or (KIND[e['k']] != oc['k']) or (e['k'] != 'number' and oc['v'] != e['v']) or (oc['f'] != e['f'] and not oc.get('f_uncertain')):
                oracle_issue = 'intent %r vs own decoder %r at %s' % (e, oc, ref)
                continue
            tags = ''
            compare_cell(divs, '%s!%s' % (s['name'], ref), e['k'], e['v'], e['f'], ls['cells'].get(ref), tags)
            if 'numfmt' in e:
                st = ls['styles'].get(ref, {})
                got = st.get('numfmt.code', 'General')
                if got != e['numfmt']:
                    divs.append(('xf-numfmt', '%s!%s file %r library %r' % (s['name'], ref, e['numfmt'], got)))
                gf = st.get('font.name', 'Calibri')
                if gf != e['font'][0]:
                    divs.append(('xf-font', '%s!%s file %r library %r' % (s['name'], ref, e['font'][0], gf)))
        for ref, lc in ls['cells'].items():
            if ref not in s['cells'] and lc.get('k') != 'blank':
                divs.append(('cell-extra', '%s!%s library shows %r' % (s['name'], ref, lc)))
        for ref, url, loc in s['links']:
            stats['links'] += 1
            if ls['links'].get(ref) != (url, loc):
                divs.append(('hyperlink', '%s!%s file (%r, loc=%s) library %r' % (s['name'], ref, url, loc, ls['links'].get(ref))))
        if sorted(s['merges']) != sorted(ls['merges']):
            divs.append(('merges', '%s file %r library %r' % (s['name'], s['merges'], sorted(ls['merges']))))
        exp_tables = {t[0]: 'display=%s area=%s cols=[%s]' % (rust_str(t[0]), t[1], ', '.join(rust_str(c) for c in t[2])) for t in s.get('tables', [])}
        stats['tables'] = stats.get('tables', 0) + len(exp_tables)
        if exp_tables != ls.get('tables', {}):
            divs.append(('table', '%s file means %r library shows %r' % (s['name'], exp_tables, ls.get('tables'))))
    for n, a, l in intent['names']:
        stats['names'] += 1
        key = ('global' if l is None else 'local%d' % l, n)
        got = names.get(key)
        if got is None or canon(got) != canon(a):
            divs.append(('defined-name', '%r file %r library %r' % (key, a, got)))
    return ('gen', seed, feats, divs, stats, oracle_issue)


def rust_str(x):
    """the harness dumps table strings with Rust's {:?}; the generator only uses printable characters"""
    return '"' + x.replace('\\', '\\\\').replace('"', '\\"') + '"'


def canon(addr):
    """'Sheet'!A1 and Sheet!A1 are the same reference"""
    if '!' not in addr:
        return addr
    q, r = addr.rsplit('!', 1)
    if q.startswith("'") and q.endswith("'"):
        q = q[1:-1].replace("''", "'")
    return q + '\x01' + r


def check_corpus(arg):
    path, rec = arg
    name = os.path.basename(path)
    divs, stats = [], {'cells': 0, 'links': 0, 'names': 0}
    if rec['status'] != 'ok':
        return ('corpus', name, ['corpus'], [('load-failed@' + name, rec['status'][:300])], stats, None)
    try:
        own = xlsx_decode.decode(path)
    except Exception as e:
        return ('corpus', name, ['corpus'], [], stats, 'own decoder failed: %r' % e)
    sheets, names = lib_model(rec['dump'])
    uncertain = 0
    for i, s in enumerate(own['sheets']):
        if s.get('kind'):
            continue
        ls = sheets.get(i, {'cells': {}, 'links': {}, 'merges': {}})
        for ref, c in s['cells'].items():
            if not c['k'] and not c['f']:
                continue
            stats['cells'] += 1
            kind = {'s': 'rich' if c.get('rich') else 'text', 'n': 'number', 'b': 'bool', 'e': 'error', '': ''}[c['k']]
            if c.get('f_uncertain'):
                uncertain += 1
            tag = '[shared-child]' if c.get('f_shared_child') else ''
            before = len(divs)
            compare_cell(divs, '%s %s!%s' % (name, s['name'], ref), kind, c['v'], c['f'], ls['cells'].get(ref), tag, f_uncertain=bool(c.get('f_uncertain')))
        for ref, c in s['cells'].items():
            if 'link' in c and 'link_both' not in c:
                stats['links'] += 1
                if ls['links'].get(ref) != (c['link'], c['loc']):
                    divs.append(('hyperlink', '%s %s!%s file (%r) library %r' % (name, s['name'], ref, c['link'], ls['links'].get(ref))))
        if sorted(set(s['merges'])) != sorted(ls['merges']):
            divs.append(('merges', '%s %s' % (name, s['name'])))
    stats['uncertain_shared_children'] = uncertain
    return ('corpus', name, ['corpus'], [(sig + '@' + name, d) for sig, d in divs], stats, None)


def check(out_dir, seeds, corpus_paths, dumps, procs=16):
    jobs_g = [(seed, dumps[os.path.join(out_dir, 'gen-%d.xlsx' % seed)]) for seed in seeds]
    jobs_c = [(p, dumps[p]) for p in corpus_paths]
    groups, totals, oracle_issues = {}, {}, []
    with Pool(procs) as pool:
        results = pool.map(check_generated, jobs_g, chunksize=4) + pool.map(check_corpus, jobs_c, chunksize=1)
    for origin, ident, feats, divs, stats, issue in results:
        for k, v in stats.items():
            totals[k] = totals.get(k, 0) + v
        if issue:
            oracle_issues.append('%s %s: %s' % (origin, ident, issue))
        seen = {}
        for sig, detail in divs:
            seen[sig] = seen.get(sig, 0) + 1
            if seen[sig] > 1:
                continue
            e = groups.setdefault((sig, tuple(feats)), [0, []])
            e[0] += 1
            if len(e[1]) < 3:
                e[1].append({'cmd': 'c03', 'seed': ident if origin == 'gen' else 0, 'case': 0, 'sig': sig, 'features': list(feats), 'detail': detail})
    return totals, groups, oracle_issues
