"""Independent OPC/SpreadsheetML package validator (prototype). Only constraints named in property C02."""
import zipfile, posixpath, re, sys, json
import xml.etree.ElementTree as ET
from xml.parsers import expat
M='{http://schemas.openxmlformats.org/spreadsheetml/2006/main}'
R='{http://schemas.openxmlformats.org/officeDocument/2006/relationships}'
PR='{http://schemas.openxmlformats.org/package/2006/relationships}'
CT='{http://schemas.openxmlformats.org/package/2006/content-types}'
WS_ORDER=['sheetPr','dimension','sheetViews','sheetFormatPr','cols','sheetData','sheetCalcPr','sheetProtection','protectedRanges','scenarios','autoFilter','sortState','dataConsolidate','customSheetViews','mergeCells','phoneticPr','conditionalFormatting','dataValidations','hyperlinks','printOptions','pageMargins','pageSetup','headerFooter','rowBreaks','colBreaks','customProperties','cellWatches','ignoredErrors','smartTags','drawing','legacyDrawing','legacyDrawingHF','drawingHF','picture','oleObjects','controls','webPublishItems','tableParts','extLst']
REF=re.compile(r'^([A-Z]{1,3})([0-9]+)$')
def col2n(s):
    n=0
    for ch in s: n=n*26+ord(ch)-64
    return n
def validate(path_or_bytes):
    V=[]
    def bad(cls,msg): V.append((cls,msg))
    import io
    z=zipfile.ZipFile(path_or_bytes if isinstance(path_or_bytes,str) else io.BytesIO(path_or_bytes))
    names=z.namelist()
    if len(names)!=len(set(names)): bad('dup-part','duplicate part names')
    if z.testzip() is not None: bad('crc','bad crc')
    trees={}
    for n in names:
        if n.endswith('.xml') or n.endswith('.rels') or n.endswith('.vml'):
            try: trees[n]=ET.fromstring(z.read(n))
            except ET.ParseError as e:
                # VML is a legacy format that producers (Excel included) do not keep XML-clean (<br> in text boxes);
                # the property speaks of the package's XML parts, so an ill-formed .vml is not flagged
                if not n.endswith('.vml'): bad('ill-formed', '%s: %s'%(n,e))
    # padded text must carry xml:space="preserve" (readers that honour the XML default would strip it)
    XS='{http://www.w3.org/XML/1998/namespace}space'
    for n,t in trees.items():
        if n.startswith('xl/') and (n.endswith('sharedStrings.xml') or '/worksheets/' in n or '/comments' in n):
            for el in t.iter(M+'t'):
                tx=el.text or ''
                if tx!=tx.strip(' \t\r\n') and el.get(XS)!='preserve':
                    bad('text-space-not-preserved','%s: %r'%(n,tx[:40])); break
    # content types
    ct=trees.get('[Content_Types].xml')
    if ct is None: bad('no-content-types',''); return V
    defaults={d.get('Extension').lower() for d in ct.findall(CT+'Default')}
    overrides={}
    for o in ct.findall(CT+'Override'):
        pn=o.get('PartName')
        if pn in overrides: bad('dup-override',pn)
        overrides[pn]=o.get('ContentType')
        if pn[1:] not in names: bad('override-missing-part',pn)
    for n in names:
        if n=='[Content_Types].xml': continue
        ext=n.rsplit('.',1)[-1].lower() if '.' in n else ''
        if '/'+n not in overrides and ext not in defaults: bad('no-content-type',n)
    # relationships
    rels={}
    for n in names:
        if not n.endswith('.rels'): continue
        t=trees.get(n)
        if t is None: continue
        d=posixpath.dirname(posixpath.dirname(n)); src=posixpath.join(d,posixpath.basename(n)[:-5])
        if src and src not in names and n!='_rels/.rels': bad('rels-without-source',n)
        ids={}
        for r in t.findall(PR+'Relationship'):
            i=r.get('Id')
            if i in ids: bad('dup-rid','%s %s'%(n,i))
            tgt=r.get('Target')
            if r.get('TargetMode')!='External':
                full=tgt[1:] if tgt.startswith('/') else posixpath.normpath(posixpath.join(d,tgt))
                if full not in names: bad('rel-target-missing','%s %s -> %s'%(n,i,full))
                ids[i]=(r.get('Type'),full,False)
            else: ids[i]=(r.get('Type'),tgt,True)
        rels[src]=ids
    # every r:id used inside a part resolves in that part's rels, to a relationship of the kind the element asks for
    RTYPE={('sheet','id'):('/worksheet','/chartsheet','/dialogsheet','/macrosheet'),('pivotCache','id'):('/pivotCacheDefinition',),('externalReference','id'):('/externalLink',),
           ('drawing','id'):('/drawing',),('legacyDrawing','id'):('/vmlDrawing',),('legacyDrawingHF','id'):('/vmlDrawing',),('tablePart','id'):('/table',),('hyperlink','id'):('/hyperlink',),
           ('pageSetup','id'):('/printerSettings',),('blip','embed'):('/image',),('chart','id'):('/chart',),('pivotCacheDefinition','id'):('/pivotCacheRecords',)}
    for n,t in trees.items():
        if n.endswith('.rels') or n=='[Content_Types].xml': continue
        for el in t.iter():
            for k,v in el.attrib.items():
                if k.startswith(R):
                    if v not in rels.get(n,{}): bad('dangling-rid','%s <%s %s=%s>'%(n,el.tag.split('}')[-1],k.split('}')[-1],v))
                    else:
                        want=RTYPE.get((el.tag.split('}')[-1],k.split('}')[-1]))
                        ty=rels[n][v][0] or ''
                        if want and not ty.endswith(want): bad('rid-wrong-kind','%s <%s %s=%s> resolves to a relationship of type %s'%(n,el.tag.split('}')[-1],k.split('}')[-1],v,ty.rsplit('/',1)[-1]))
    wbn=[p for (ty,p,_) in rels.get('',{}).values() if ty.endswith('/officeDocument')]
    if len(wbn)!=1: bad('no-workbook',''); return V
    wb=trees[wbn[0]]; wrels=rels.get(wbn[0],{})
    sheets=wb.find(M+'sheets'); sl=list(sheets) if sheets is not None else []
    if not sl: bad('no-sheets','')
    nm=[s.get('name') for s in sl]
    if len({x.lower() for x in nm})!=len(nm): bad('dup-sheet-name',str(nm))
    for x in nm:
        if not x or len(x)>31 or re.search(r'[:\\/?*\[\]]',x) or x.startswith("'") or x.endswith("'"): bad('illegal-sheet-name',repr(x))
    if len({s.get('sheetId') for s in sl})!=len(sl): bad('dup-sheetId','')
    if len({s.get(R+'id') for s in sl})!=len(sl): bad('dup-sheet-rid','')
    bv=wb.find(M+'bookViews')
    for v in (bv if bv is not None else []):
        at=int(v.get('activeTab') or 0)
        if at>=len(sl): bad('activeTab-out-of-range','%d of %d'%(at,len(sl)))
    dn=wb.find(M+'definedNames')
    for d in (dn if dn is not None else []):
        l=d.get('localSheetId')
        if l is not None and int(l)>=len(sl): bad('localSheetId-out-of-range',d.get('name'))
    # tables of indices
    nsst=None; ncellxfs=ndxf=None; st=None
    for (ty,p,_) in wrels.values():
        if ty.endswith('/sharedStrings') and p in trees: nsst=len(trees[p].findall(M+'si')); 
        if ty.endswith('/sharedStrings') and p in trees:
            u=trees[p].get('uniqueCount')
            if u is not None and int(u)!=nsst: bad('sst-uniqueCount','%s vs %d'%(u,nsst))
        if ty.endswith('/styles') and p in trees: st=trees[p]
    if st is not None:
        def cnt(tag,child): 
            e=st.find(M+tag); return len(e.findall(M+child)) if e is not None else 0
        nfont,nfill,nborder,ncsx,ncellxfs,ndxf=cnt('fonts','font'),cnt('fills','fill'),cnt('borders','border'),cnt('cellStyleXfs','xf'),cnt('cellXfs','xf'),cnt('dxfs','dxf')
        nf=st.find(M+'numFmts'); custom={int(x.get('numFmtId')) for x in (nf if nf is not None else [])}
        for tag in ('cellStyleXfs','cellXfs'):
            e=st.find(M+tag)
            for i,xf in enumerate(e if e is not None else []):
                for a,lim in (('fontId',nfont),('fillId',nfill),('borderId',nborder)):
                    if xf.get(a) is not None and int(xf.get(a))>=lim: bad('xf-index','%s[%d].%s=%s/%d'%(tag,i,a,xf.get(a),lim))
                if tag=='cellXfs' and xf.get('xfId') is not None and int(xf.get('xfId'))>=max(ncsx,1): bad('xf-index','cellXfs[%d].xfId'%i)
                nid=int(xf.get('numFmtId') or 0)
                if nid>=164 and nid not in custom: bad('numFmt-undefined','%s[%d] numFmtId=%d'%(tag,i,nid))
    for s in sl:
        rid=s.get(R+'id')
        if rid not in wrels: continue
        ty,part,_=wrels[rid]
        if not ty.endswith('/worksheet') or part not in trees: continue
        ws=trees[part]
        order=[c.tag.split('}')[-1] for c in ws if c.tag.startswith(M)]
        idx=[WS_ORDER.index(t) if t in WS_ORDER else -1 for t in order]
        if -1 in idx: bad('unknown-ws-child','%s %s'%(part,[o for o,i in zip(order,idx) if i<0]))
        ii=[i for i in idx if i>=0]
        if any(a>b for a,b in zip(ii,ii[1:])) : bad('ws-child-order','%s %s'%(part,order))
        if any(a==b for a,b in zip(ii,ii[1:]) if WS_ORDER[a] not in ('conditionalFormatting',)): bad('ws-child-dup','%s %s'%(part,order))
        sd=ws.find(M+'sheetData'); prev_r=0
        for row in (sd if sd is not None else []):
            r=int(row.get('r')) if row.get('r') else prev_r+1
            if r<=prev_r or r<1 or r>1048576: bad('row-order','%s row %s after %d'%(part,row.get('r'),prev_r))
            prev_r=r; prev_c=0
            if row.get('s') is not None and ncellxfs is not None and int(row.get('s'))>=ncellxfs: bad('style-index','%s row %d s=%s'%(part,r,row.get('s')))
            for c in row.findall(M+'c'):
                ref=c.get('r'); cn=prev_c+1
                if ref:
                    m=REF.match(ref)
                    if not m: bad('cell-ref','%s %r'%(part,ref)); continue
                    cn=col2n(m.group(1))
                    if int(m.group(2))!=r: bad('cell-row-mismatch','%s %s in row %d'%(part,ref,r))
                if cn<=prev_c or cn>16384: bad('cell-order','%s %s after col %d'%(part,ref,prev_c))
                prev_c=cn
                if c.get('s') is not None and ncellxfs is not None and int(c.get('s'))>=ncellxfs: bad('style-index','%s %s s=%s/%d'%(part,ref,c.get('s'),ncellxfs))
                t=c.get('t')
                if t not in (None,'s','str','inlineStr','b','e','n','d'): bad('cell-type','%s %s t=%s'%(part,ref,t))
                v=c.find(M+'v')
                if t=='s' and v is not None:
                    if nsst is None or not (v.text or '').isdigit() or int(v.text)>=nsst: bad('sst-index','%s %s v=%r/%s'%(part,ref,v.text,nsst))
                if t in (None,'n') and v is not None and (v.text or '').strip()!='':
                    try: float(v.text)
                    except ValueError: bad('numeric-text','%s %s v=%r'%(part,ref,v.text))
                if t=='b' and v is not None and (v.text or '') not in ('0','1'): bad('bool-text','%s %s'%(part,ref))
        for cf in ws.findall(M+'conditionalFormatting'):
            for rule in cf.findall(M+'cfRule'):
                d=rule.get('dxfId')
                if d is not None and (ndxf is None or int(d)>=ndxf): bad('dxf-index','%s dxfId=%s/%s'%(part,d,ndxf))
        for col in (ws.find(M+'cols') if ws.find(M+'cols') is not None else []):
            if col.get('style') is not None and ncellxfs is not None and int(col.get('style'))>=ncellxfs: bad('style-index','%s col style=%s'%(part,col.get('style')))
        hl=ws.find(M+'hyperlinks')
        for h in (hl if hl is not None else []):
            rid2=h.get(R+'id')
            if rid2 is not None and rid2 in rels.get(part,{}):
                ty2,_,ext=rels[part][rid2]
                if not ty2.endswith('/hyperlink'): bad('hyperlink-rid-type','%s %s -> %s'%(part,rid2,ty2))
    return V
if __name__=='__main__':
    import collections
    agg=collections.Counter()
    for p in sys.argv[1:]:
        try: v=validate(p)
        except Exception as e: v=[('validator-error',repr(e))]
        for cls,msg in v: agg[cls]+=1
        if v: print(p.split('/')[-1], v[:6])
    print(dict(agg))
