"""C14 monitor: decrypt every produced compound file with the independent agile decryptor."""
import json, os, sys, zipfile, io
from multiprocessing import Pool
sys.path.insert(0, os.path.dirname(os.path.abspath(__file__)))
import offcrypto


def same_package(a, b):
    if a == b:
        return True
    try:
        za, zb = zipfile.ZipFile(io.BytesIO(a)), zipfile.ZipFile(io.BytesIO(b))
        return sorted(za.namelist()) == sorted(zb.namelist()) and all(za.read(n) == zb.read(n) for n in za.namelist())
    except Exception:
        return False


def check_one(arg):
    out_dir, line = arg
    c = json.loads(line)
    divs = []
    infos = []
    if c['status'] != 'ok':
        return c, [('api-failed:' + c['api'], c['status'][:300])], infos
    plain = open(os.path.join(out_dir, 'case-%d.plain' % c['case']), 'rb').read()
    files = [os.path.join(out_dir, 'case-%d.enc' % c['case'])] + ([c['second']] if c.get('second') else [])
    for path in files:
        data = open(path, 'rb').read()
        try:
            r = offcrypto.decrypt_file(data, c['password'])
        except Exception as e:
            divs.append(('not-an-agile-compound-file', '%s: %r' % (c['api'], e)))
            continue
        if not r.get('ok'):
            divs.append(('decrypt:' + r.get('reason', '?').split(' ')[0], '%s size %d password %r: %s' % (c['api'], c['size'], c['password'][:20], r.get('reason'))))
            continue
        infos.append(r['info'])
        if r['declared'] != len(plain):
            divs.append(('declared-length', '%s: declared %d, package %d' % (c['api'], r['declared'], len(plain))))
        exact = r['package'] == plain
        if not exact and not (c['api'].startswith('write_with') and same_package(r['package'], plain)):
            divs.append(('plaintext-differs', '%s size %d: decrypted %d bytes differ from the unencrypted package' % (c['api'], len(plain), len(r['package']))))
        # a different password must fail verification
        for wrong in (c['password'] + 'x', c['password'][:-1] if c['password'] else 'a', c['password'].swapcase() if c['password'].swapcase() != c['password'] else c['password'] + ' '):
            if wrong == c['password']:
                continue
            try:
                w = offcrypto.decrypt_file(data, wrong)
                if w.get('ok') or w.get('reason') != 'verifier mismatch':
                    divs.append(('wrong-password-accepted', '%s: password %r accepted for %r (%s)' % (c['api'], wrong[:20], c['password'][:20], w.get('reason'))))
            except Exception as e:
                divs.append(('wrong-password-crash', repr(e)))
            break
    return c, divs, infos


def check(out_dir, procs=16):
    lines = [(out_dir, l) for l in open(os.path.join(out_dir, 'cases.jsonl'), encoding='utf-8')]
    groups = {}
    randoms = {'keySalt': {}, 'pkgSalt': {}, 'packageKey': {}, 'verifierInput': {}}
    n = 0
    sizes = set()

    def div(sig, c, detail):
        e = groups.setdefault(sig, [0, []])
        e[0] += 1
        if len(e[1]) < 3:
            e[1].append({'cmd': 'c14', 'seed': c['seed'], 'case': c['case'], 'sig': sig, 'features': [], 'detail': detail})

    with Pool(procs) as pool:
        for c, divs, infos in pool.imap_unordered(check_one, lines, chunksize=2):
            n += 1
            sizes.add(c['size'])
            for sig, d in divs:
                div(sig, c, d)
            for info in infos:
                for k in randoms:
                    v = info.get(k)
                    if v in randoms[k]:
                        div('randomness-repeated:' + k, c, '%s %s also used by case %s' % (k, v, randoms[k][v]))
                    randoms[k][v] = c['case']
                if info.get('spin') != 100000:
                    div('spin-count', c, 'spinCount %r' % info.get('spin'))
    return n, len(sizes), {k: len(v) for k, v in randoms.items()}, groups
