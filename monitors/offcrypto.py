"""Independent MS-OFFCRYPTO agile decryptor (prototype): own CFB reader, own AES, hashlib SHA-512/HMAC."""
import struct, hashlib, hmac as _hmac, base64, sys
import xml.etree.ElementTree as ET

# ---------------- AES (decrypt only, FIPS-197) ----------------
def _mk_sbox():
    p = q = 1; sbox = [0]*256
    while True:
        p = p ^ ((p << 1) & 0xff) ^ (0x1b if p & 0x80 else 0)
        q ^= q << 1; q ^= q << 2; q ^= q << 4; q &= 0xff
        if q & 0x80: q ^= 0x09
        x = q ^ ((q << 1) | (q >> 7)) & 0xff ^ ((q << 2) | (q >> 6)) & 0xff ^ ((q << 3) | (q >> 5)) & 0xff ^ ((q << 4) | (q >> 4)) & 0xff
        sbox[p] = (x ^ 0x63) & 0xff
        if p == 1: break
    sbox[0] = 0x63
    return sbox
SBOX = _mk_sbox(); INV = [0]*256
for i, v in enumerate(SBOX): INV[v] = i
def _xt(a): return ((a << 1) ^ 0x1b) & 0xff if a & 0x80 else a << 1
def _mul(a, b):
    r = 0
    while b:
        if b & 1: r ^= a
        a = _xt(a); b >>= 1
    return r
M9=[_mul(i,9) for i in range(256)]; M11=[_mul(i,11) for i in range(256)]; M13=[_mul(i,13) for i in range(256)]; M14=[_mul(i,14) for i in range(256)]
def expand_key(key):
    nk = len(key)//4; nr = nk+6
    w = [list(key[4*i:4*i+4]) for i in range(nk)]
    rcon = 1
    for i in range(nk, 4*(nr+1)):
        t = list(w[i-1])
        if i % nk == 0:
            t = t[1:]+t[:1]; t = [SBOX[b] for b in t]; t[0] ^= rcon; rcon = _xt(rcon)
        elif nk > 6 and i % nk == 4:
            t = [SBOX[b] for b in t]
        w.append([a ^ b for a, b in zip(w[i-nk], t)])
    return [sum(w[4*r:4*r+4], []) for r in range(nr+1)], nr
def decrypt_block(rk, nr, blk):
    s = [b ^ k for b, k in zip(blk, rk[nr])]
    for r in range(nr-1, -1, -1):
        # inv shift rows
        s = [s[0],s[13],s[10],s[7], s[4],s[1],s[14],s[11], s[8],s[5],s[2],s[15], s[12],s[9],s[6],s[3]]
        s = [INV[b] for b in s]
        s = [b ^ k for b, k in zip(s, rk[r])]
        if r:
            o = []
            for c in range(4):
                a0,a1,a2,a3 = s[4*c:4*c+4]
                o += [M14[a0]^M11[a1]^M13[a2]^M9[a3], M9[a0]^M14[a1]^M11[a2]^M13[a3], M13[a0]^M9[a1]^M14[a2]^M11[a3], M11[a0]^M13[a1]^M9[a2]^M14[a3]]
            s = o
    return bytes(s)
def cbc_decrypt(key, iv, data):
    assert len(data) % 16 == 0
    rk, nr = expand_key(key); out = bytearray(); prev = iv
    for i in range(0, len(data), 16):
        blk = data[i:i+16]
        out += bytes(a ^ b for a, b in zip(decrypt_block(rk, nr, blk), prev)); prev = blk
    return bytes(out)

# ---------------- CFB reader (MS-CFB) ----------------
class CFB:
    def __init__(self, data):
        self.d = data
        assert data[:8] == bytes.fromhex('D0CF11E0A1B11AE1'), 'bad signature'
        (self.minor, self.major, bo, ss, mss) = struct.unpack_from('<HHHHH', data, 0x18)
        assert bo == 0xFFFE and (self.major, ss) in ((3, 9), (4, 12)) and mss == 6
        self.ssz = 1 << ss
        (ndir, nfat, dir0, _, cutoff, mfat0, nmfat, difat0, ndifat) = struct.unpack_from('<IIIIIIIII', data, 0x28)
        self.cutoff = cutoff
        difat = list(struct.unpack_from('<109I', data, 0x4C)); s = difat0
        while s < 0xFFFFFFFA and ndifat:
            sec = self.sector(s); ents = struct.unpack('<%dI' % (self.ssz//4), sec); difat += ents[:-1]; s = ents[-1]
        self.fat = []
        for s in difat[:nfat] if nfat <= len(difat) else difat:
            if s < 0xFFFFFFFA: self.fat += struct.unpack('<%dI' % (self.ssz//4), self.sector(s))
        dirb = self.chain(dir0)
        self.entries = []
        for off in range(0, len(dirb), 128):
            e = dirb[off:off+128]; nlen = struct.unpack_from('<H', e, 0x40)[0]
            name = e[:max(nlen-2, 0)].decode('utf-16-le'); typ = e[0x42]
            start = struct.unpack_from('<I', e, 0x74)[0]; size = struct.unpack_from('<Q', e, 0x78)[0]
            if self.major == 3: size &= 0xFFFFFFFF
            self.entries.append((name, typ, start, size))
        root = self.entries[0]; assert root[1] == 5
        self.mini = self.chain(root[2])[:root[3]] if root[2] < 0xFFFFFFFA else b''
        self.minifat = []
        if mfat0 < 0xFFFFFFFA:
            mf = self.chain(mfat0); self.minifat = list(struct.unpack('<%dI' % (len(mf)//4), mf))
    def sector(self, n):
        off = (n+1)*self.ssz; b = self.d[off:off+self.ssz]; assert len(b) == self.ssz, 'sector beyond file'; return b
    def chain(self, s):
        out = bytearray(); seen = set()
        while s < 0xFFFFFFFA:
            assert s not in seen, 'FAT loop'; seen.add(s); out += self.sector(s); s = self.fat[s]
        return bytes(out)
    def stream(self, name):
        for (n, typ, start, size) in self.entries:
            if typ == 2 and n == name:
                if size < self.cutoff:
                    out = bytearray(); s = start; seen=set()
                    while s < 0xFFFFFFFA:
                        assert s not in seen; seen.add(s); out += self.mini[s*64:(s+1)*64]; s = self.minifat[s]
                    return bytes(out[:size])
                return self.chain(start)[:size]
        raise KeyError(name)
    def names(self): return [(n, t, sz) for (n, t, _, sz) in self.entries if t]

# ---------------- agile encryption ----------------
NS = {'e': 'http://schemas.microsoft.com/office/2006/encryption', 'p': 'http://schemas.microsoft.com/office/2006/keyEncryptor/password'}
BK_VIN = bytes.fromhex('fea7d2763b4b9e79'); BK_VVAL = bytes.fromhex('d7aa0f6d3061344e'); BK_KEY = bytes.fromhex('146e0be7abacd0d6')
BK_HKEY = bytes.fromhex('5fb2ad010cb9e1f6'); BK_HVAL = bytes.fromhex('a0677f02b22c8433')
def H(*parts): return hashlib.sha512(b''.join(parts)).digest()
def fit(b, n): return b[:n] if len(b) >= n else b + b'\x36'*(n-len(b))
def pw_hash(pw, salt, spin):
    h = H(salt, pw.encode('utf-16-le'))
    for i in range(spin): h = H(struct.pack('<I', i), h)
    return h
def decrypt_file(data, password, wrong=False):
    """returns dict(ok=..., reason=..., package=bytes, info=...)"""
    cfb = CFB(data)
    info = cfb.stream('EncryptionInfo'); pkg = cfb.stream('EncryptedPackage')
    vmaj, vmin, flags = struct.unpack_from('<HHI', info, 0)
    assert (vmaj, vmin, flags) == (4, 4, 0x40), 'not agile: %r' % ((vmaj, vmin, flags),)
    root = ET.fromstring(info[8:])
    kd = root.find('e:keyData', NS); di = root.find('e:dataIntegrity', NS); ek = root.find('e:keyEncryptors/e:keyEncryptor/p:encryptedKey', NS)
    assert kd is not None and di is not None and ek is not None
    for el in (kd, ek):
        assert el.get('cipherAlgorithm') == 'AES' and el.get('cipherChaining') == 'ChainingModeCBC' and el.get('hashAlgorithm') == 'SHA512'
        assert int(el.get('hashSize')) == 64 and int(el.get('blockSize')) == 16 and int(el.get('saltSize')) == len(base64.b64decode(el.get('saltValue')))
    b64 = base64.b64decode
    ksalt = b64(ek.get('saltValue')); spin = int(ek.get('spinCount')); kbits = int(ek.get('keyBits'))
    h = pw_hash(password, ksalt, spin)
    def dk(bk): return fit(H(h, bk), kbits//8)
    vin = cbc_decrypt(dk(BK_VIN), ksalt, b64(ek.get('encryptedVerifierHashInput')))[:len(ksalt)]
    vval = cbc_decrypt(dk(BK_VVAL), ksalt, b64(ek.get('encryptedVerifierHashValue')))[:64]
    res = dict(info=dict(keySalt=ksalt.hex(), pkgSalt=b64(kd.get('saltValue')).hex(), spin=spin, verifierInput=vin.hex()))
    if H(vin) != vval: res.update(ok=False, reason='verifier mismatch'); return res
    pkey = cbc_decrypt(dk(BK_KEY), ksalt, b64(ek.get('encryptedKeyValue')))[:int(kd.get('keyBits'))//8]
    res['info']['packageKey'] = pkey.hex()
    psalt = b64(kd.get('saltValue'))
    hkey = cbc_decrypt(pkey, fit(H(psalt, BK_HKEY), 16), b64(di.get('encryptedHmacKey')))[:64]
    hval = cbc_decrypt(pkey, fit(H(psalt, BK_HVAL), 16), b64(di.get('encryptedHmacValue')))[:64]
    if _hmac.new(hkey, pkg, hashlib.sha512).digest() != hval: res.update(ok=False, reason='HMAC mismatch'); return res
    size = struct.unpack_from('<Q', pkg, 0)[0]; body = pkg[8:]
    if len(body) % 16: res.update(ok=False, reason='ciphertext not block multiple'); return res
    if not (size <= len(body) < size + 16 + 0 or (size == 0 and len(body) == 0)) and not (len(body) - size < 16):
        res.update(ok=False, reason='declared size %d vs body %d' % (size, len(body))); return res
    out = bytearray()
    for i in range(0, len(body), 4096):
        out += cbc_decrypt(pkey, fit(H(psalt, struct.pack('<I', i//4096)), 16), body[i:i+4096])
    res.update(ok=True, package=bytes(out[:size]), declared=size, body=len(body)); return res

if __name__ == '__main__':
    r = decrypt_file(open(sys.argv[1], 'rb').read(), sys.argv[2])
    print({k: (v if k != 'package' else len(v)) for k, v in r.items()})
    if r.get('ok') and len(sys.argv) > 3:
        print('plaintext equal:', r['package'] == open(sys.argv[3], 'rb').read())
