"""C19 oracle: exact big-decimal rendering of a number under a fixed-decimal / thousands /
percentage pattern, computed from the float's shortest decimal representation."""
import struct, glob, os
from decimal import Decimal, ROUND_HALF_UP, getcontext
getcontext().prec = 80


def shortest(bits_hex):
    x = struct.unpack(">d", bytes.fromhex(bits_hex))[0]
    return x, Decimal(repr(x))


def expected(d, pat):
    """list of acceptable renderings (exactly one: the sign of a negative input is kept even when the rounded
    magnitude is zero, '-0.00', as the property says and as the library and Excel do)"""
    pct = pat.endswith("%")
    p = pat.rstrip("%")
    grp = p.startswith("#,##")
    dec = len(p.split(".")[1]) if "." in p else 0
    x = d * 100 if pct else d
    q = abs(x).quantize(Decimal(1).scaleb(-dec), rounding=ROUND_HALF_UP)
    s = format(q, "f")
    ip, _, fp = s.partition(".")
    if grp:
        ip = "{:,}".format(int(ip))
    body = ip + ("." + fp if dec else "") + ("%" if pct else "")
    if x < 0:
        return ["-" + body]
    return [body]


def klass(d, pat):
    p = pat.rstrip("%")
    dec = len(p.split(".")[1]) if "." in p else 0
    x = d * 100 if pat.endswith("%") else d
    s = format(abs(x), "f")
    fp = s.partition(".")[2].rstrip("0") if "." in s else ""
    kind = "pct" if pat.endswith("%") else ("grp" if p.startswith("#") else "fix")
    if not fp:
        shape = "integer"
    elif len(fp) < dec:
        shape = "shorter"
    elif len(fp) == dec:
        shape = "equal"
    else:
        head = fp[:dec]
        nxt = fp[dec]
        if nxt >= "5" and (set(head) <= {"9"}):
            shape = "longer-carry"
        elif len(fp) == dec + 1 and nxt == "5":
            shape = "longer-tie"
        elif head.startswith("0"):
            shape = "longer-leadzero"
        else:
            shape = "longer"
    return "%s.%s" % (kind, shape)


def check_rows(out_dir):
    """returns (n_rows, distinct, class counters, divergences{sig:(count,[examples])})"""
    n = 0
    seen = set()
    counters = {}
    divs = {}

    def div(sig, detail):
        e = divs.setdefault(sig, [0, []])
        e[0] += 1
        if len(e[1]) < 3:
            e[1].append({"sig": sig, "detail": detail, "features": []})

    for path in sorted(glob.glob(os.path.join(out_dir, "rows-*.tsv"))):
        for line in open(path, encoding="utf-8"):
            f = line.rstrip("\n").split("\t")
            if len(f) < 7:
                continue
            typ, ident, bits, pat, via, kind, got = f[0], f[1], f[2], f[3], f[4], f[5], "\t".join(f[6:])
            n += 1
            if typ == "num":
                x, d = shortest(bits)
                seen.add((bits, pat, via))
                if pat == "General":
                    c = "general.number"
                    counters[c] = counters.get(c, 0) + 1
                    if kind == "panic":
                        div("general.panic", "%r General: %s" % (x, got))
                    else:
                        try:
                            ok = Decimal(got) == d
                        except Exception:
                            ok = False
                        if not ok:
                            div("general.number", "%r shown as %r under General (%s)" % (x, got, via))
                    continue
                c = klass(d, pat)
                counters[c] = counters.get(c, 0) + 1
                if kind == "panic":
                    div("panic." + c, "%r / %s (%s): %s" % (x, pat, via, got))
                    continue
                exp = expected(d, pat)
                if got not in exp:
                    div("value." + c, "%r / %s (%s): got %r expected %r" % (x, pat, via, got, exp[0]))
            elif typ == "builtin":
                seen.add(("builtin", ident, bits))
                counters["builtin_ids"] = counters.get("builtin_ids", 0) + 1
                if kind == "panic":
                    x, _ = shortest(bits)
                    div("builtin.panic", "format id %s (%s) on %r: %s" % (ident, pat, x, got))
            elif typ == "text":
                seen.add(("text", ident))
                counters["general.text"] = counters.get("general.text", 0) + 1
                if kind == "panic" or got != ident:
                    div("general.text", "text %r shown as %r under General" % (ident, got))
    return n, len(seen), counters, divs
