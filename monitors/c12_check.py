"""C12 monitor: the strings stored in each written file (shared string table + inline / str cells,
read by the independent decoder) must be exactly the strings reachable from the workbook at save time."""
import json, os, re, sys
from multiprocessing import Pool
sys.path.insert(0, os.path.dirname(os.path.abspath(__file__)))
import xlsx_decode


def origin_of(text, history):
    """which event of the history created the leaked string"""
    for h in history:
        if repr(text)[1:-1] in h or text in h:
            return h
    return "?"


def read_one(arg):
    out_dir, line = arg
    c = json.loads(line)
    try:
        m = xlsx_decode.decode(os.path.join(out_dir, c['file']))
    except Exception as e:
        return c, None, repr(e)
    stored = list(m['sst'])
    c['origin_sst'] = []
    if c.get('lazy_origin'):
        try:
            om = xlsx_decode.decode(os.path.join(out_dir, c['lazy_origin']))
            c['origin_sst'] = list(om['sst'])
            extra = set()
            for s in om['sheets']:
                if s['name'] in c.get('unloaded_sheets', []):
                    for ref, cell in s['cells'].items():
                        if cell['k'] == 's':
                            extra.add(cell['v'])
            c['reachable'] = sorted(set(c['reachable']) | extra)
        except Exception as e:
            return c, None, 'origin file: %r' % e
    # every other part of the package: ids of strings that are no longer reachable must not be anywhere (chart caches,
    # comments, drawings, document properties ...). Strings are s<case>-<n>; a token boundary keeps s5-1 apart from s5-12.
    import re, zipfile
    reach_ids = set(re.findall(r's%d-(\d+|second|third)' % c['case'], ' '.join(c['reachable'])))
    pat = re.compile(rb'(?<![0-9A-Za-z])s%d-(\d+|second|third)(?![0-9A-Za-z])' % c['case'])
    c['foreign_in_parts'] = []
    try:
        z = zipfile.ZipFile(os.path.join(out_dir, c['file']))
        for n in z.namelist():
            if n == 'xl/sharedStrings.xml' or n.startswith('xl/worksheets/sheet'):
                continue
            for mm in pat.finditer(z.read(n)):
                if mm.group(1).decode() not in reach_ids and not c.get('lazy_origin'):
                    c['foreign_in_parts'].append((n, mm.group(0).decode()))
                    break
    except Exception as e:
        return c, None, 'scan of parts: %r' % e
    cell_texts = set()
    for s in m['sheets']:
        for ref, cell in s['cells'].items():
            if cell['k'] == 's':
                cell_texts.add(cell['v'])
    return c, (stored, sorted(cell_texts)), None


def check(out_dir, procs=16):
    lines = [(out_dir, l) for l in open(os.path.join(out_dir, 'saves.jsonl'), encoding='utf-8')]
    groups = {}
    n = 0
    strings = 0
    prev = {}

    def div(sig, c, detail):
        e = groups.setdefault(sig, [0, []])
        e[0] += 1
        if len(e[1]) < 3:
            e[1].append({'cmd': 'c12', 'seed': c['seed'], 'case': c['case'], 'sig': sig, 'features': [], 'detail': detail, 'descr': c['history'][-14:]})

    with Pool(procs) as pool:
        results = pool.map(read_one, lines, chunksize=16)
    for c, got, err in results:
        n += 1
        if err is not None:
            div('decode-failed', c, err)
            continue
        stored, cell_texts = got
        strings += len(stored)
        reach = set(c['reachable'])
        leaked_all = [t for t in stored if t not in reach]
        # strings the lazily loaded file already held: the save starts from a copy of the loaded table (separate class)
        stale = [t for t in leaked_all if t in set(c.get('origin_sst', []))]
        leaked = [t for t in leaked_all if t not in set(c.get('origin_sst', []))]
        if stale:
            div('stale-string-of-lazily-loaded-file', c, '%s holds %d string(s) of the file the workbook was lazily opened from that are no longer reachable, e.g. %r' % (c['file'], len(stale), stale[0]))
        if leaked:
            t = leaked[0]
            kind = 'clone-or-other-workbook' if c['nbooks'] > 1 else 'overwritten-or-deleted'
            div('leaked-string[%s]' % kind, c, '%s holds %d string(s) not reachable from book%d at save time, e.g. %r (created by: %s)' % (c['file'], len(leaked), c['book'], t, origin_of(t, c['history'])))
        for part, token in c.get('foreign_in_parts', []):
            cls = re.sub(r'[0-9]+', '', part)
            div('unreachable-string-in-part:%s' % cls, c, '%s: part %s still holds %r, which is not reachable from book%d at save time' % (c['file'], part, token, c['book']))
        missing = [t for t in reach if t not in set(stored) and t not in set(cell_texts)]
        if missing:
            div('missing-string', c, '%s lacks %r' % (c['file'], missing[0]))
        shown = set(cell_texts)
        if shown != reach:
            extra = shown - reach
            if extra:
                div('cell-shows-foreign-string', c, '%s: a cell shows %r which is not in the workbook' % (c['file'], sorted(extra)[0]))
        if len(stored) != len(set(stored)):
            pass  # duplicates in the table are wasteful but not foreign content
        key = (c['case'], c['book'])
        if c.get('repeat_of_previous') and key in prev and sorted(prev[key]) != sorted(stored):
            div('repeat-save-differs', c, '%s: string table %r, previous save of the same unchanged workbook %r' % (c['file'], sorted(stored)[:6], sorted(prev[key])[:6]))
        prev[key] = stored
    return n, strings, groups
