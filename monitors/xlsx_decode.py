"""Independent SpreadsheetML decoder: zipfile + ElementTree (expat), written from ECMA-376.
No code shared with the library. Output model:
  {'sheets': [{'name','state','kind','cells': {A1: {'k': s|n|b|e|'' , 'v': text, 'f': formula, 'rich': bool, 'xf': int,
                                                       'link': target, 'loc': bool}}, 'merges': [...]}],
   'names': [[name, refers_to, localSheetId]], 'active': index}
"""
import zipfile, posixpath, re, io
import xml.etree.ElementTree as ET

M = '{http://schemas.openxmlformats.org/spreadsheetml/2006/main}'
R = '{http://schemas.openxmlformats.org/officeDocument/2006/relationships}'
PR = '{http://schemas.openxmlformats.org/package/2006/relationships}'
REL_DOC = 'http://schemas.openxmlformats.org/officeDocument/2006/relationships/officeDocument'


def col2n(s):
    n = 0
    for ch in s:
        n = n * 26 + (ord(ch) - 64)
    return n


def n2col(n):
    s = ''
    while n > 0:
        n, r = divmod(n - 1, 26)
        s = chr(65 + r) + s
    return s


REF = re.compile(r'^\$?([A-Z]{1,3})\$?([0-9]+)$')
XESC = re.compile(r'_x([0-9A-Fa-f]{4})_')


def parse_ref(r):
    m = REF.match(r)
    return col2n(m.group(1)), int(m.group(2))


def xstring(s):
    """ST_Xstring: _xHHHH_ is an escaped UTF-16 code unit (22.9.2.19)"""
    if s is None or '_x' not in s:
        return s or ''
    out = XESC.sub(lambda m: chr(int(m.group(1), 16)), s)
    # re-join surrogate pairs produced by two escapes
    try:
        out = out.encode('utf-16', 'surrogatepass').decode('utf-16')
    except Exception:
        pass
    return out


def rels_of(z, part):
    d, b = posixpath.split(part)
    p = posixpath.join(d, '_rels', b + '.rels')
    out = {}
    if p not in z.namelist():
        return out
    for r in ET.fromstring(z.read(p)).findall(PR + 'Relationship'):
        tgt = r.get('Target')
        mode = r.get('TargetMode')
        if mode != 'External':
            tgt = posixpath.normpath(posixpath.join(d, tgt)) if not tgt.startswith('/') else tgt[1:]
        out[r.get('Id')] = (r.get('Type'), tgt, mode)
    return out


def si_text(si):
    parts = []
    for ch in si:
        if ch.tag == M + 't':
            parts.append(xstring(ch.text))
        elif ch.tag == M + 'r':
            for t in ch.findall(M + 't'):
                parts.append(xstring(t.text))
    return ''.join(parts), any(ch.tag == M + 'r' for ch in si)


# ---- conservative A1 shifter for shared formulas (relative parts move by dc, dr) ----
TOK = re.compile(r'''("(?:[^"]|"")*")|('(?:[^']|'')*')|(\$?[A-Z]{1,3}\$?[0-9]{1,7})(?![A-Za-z0-9_.(])|([A-Za-z_\\][A-Za-z0-9_.]*)|(.)''', re.S)


def shift_formula(f, dc, dr):
    out = []
    ok = True
    prev_end_alnum = False
    for m in TOK.finditer(f):
        s, q, ref, name, other = m.groups()
        if ref and not prev_end_alnum:
            mm = re.match(r'(\$?)([A-Z]{1,3})(\$?)([0-9]+)$', ref)
            c = col2n(mm.group(2))
            r = int(mm.group(4))
            if c > 16384 or r > 1048576 or r == 0:
                out.append(ref)
            else:
                if not mm.group(1):
                    c += dc
                if not mm.group(3):
                    r += dr
                if c < 1 or r < 1 or c > 16384 or r > 1048576:
                    out.append('#REF!')
                else:
                    out.append(mm.group(1) + n2col(c) + mm.group(3) + str(r))
        else:
            out.append(m.group(0))
            if other in ('[', ']'):
                ok = False   # structured / external references: not trusted
        prev_end_alnum = bool(re.search(r'[A-Za-z0-9_.]$', m.group(0))) and not (s or q)
    return ''.join(out), ok


def decode(src):
    z = zipfile.ZipFile(io.BytesIO(src) if isinstance(src, (bytes, bytearray)) else src)
    root = rels_of(z, '')
    wbpart = [t for (ty, t, _) in root.values() if ty == REL_DOC][0]
    wb = ET.fromstring(z.read(wbpart))
    wbrels = rels_of(z, wbpart)
    sst = []
    styles = None
    for (ty, t, _) in wbrels.values():
        if ty.endswith('/sharedStrings'):
            for si in ET.fromstring(z.read(t)).findall(M + 'si'):
                sst.append(si_text(si))
        if ty.endswith('/styles'):
            styles = ET.fromstring(z.read(t))
    res = {'sheets': [], 'names': [], 'active': 0, 'sst': [t for t, _ in sst]}
    bv = wb.find(M + 'bookViews')
    if bv is not None and len(bv):
        res['active'] = int(bv[0].get('activeTab') or 0)
    for sh in wb.find(M + 'sheets'):
        ty, part, _ = wbrels[sh.get(R + 'id')]
        sheet = {'name': sh.get('name'), 'state': sh.get('state') or 'visible', 'cells': {}, 'merges': [], 'part': part}
        res['sheets'].append(sheet)
        if not ty.endswith('/worksheet'):
            sheet['kind'] = ty.rsplit('/', 1)[-1]
            continue
        ws = ET.fromstring(z.read(part))
        srels = rels_of(z, part)
        shared = {}
        sd = ws.find(M + 'sheetData')
        rown = 0
        for row in (sd if sd is not None else []):
            rown = int(row.get('r')) if row.get('r') else rown + 1
            coln = 0
            for c in row.findall(M + 'c'):
                if c.get('r'):
                    coln, rr = parse_ref(c.get('r'))
                else:
                    coln += 1
                ref = n2col(coln) + str(rown)
                t = c.get('t') or 'n'
                v = c.find(M + 'v')
                vt = (v.text or '') if v is not None else None
                cell = {'k': '', 'v': '', 'f': ''}
                if c.get('s') is not None:
                    cell['xf'] = int(c.get('s'))
                if t == 's':
                    if vt is not None:
                        txt, rich = sst[int(vt)]
                        cell.update(k='s', v=txt)
                        if rich:
                            cell['rich'] = True
                elif t == 'str':
                    if vt is not None:
                        cell.update(k='s', v=xstring(vt))
                elif t == 'inlineStr':
                    is_ = c.find(M + 'is')
                    if is_ is not None:
                        txt, rich = si_text(is_)
                        cell.update(k='s', v=txt)
                        if rich:
                            cell['rich'] = True
                elif t == 'b':
                    if vt is not None:
                        cell.update(k='b', v='TRUE' if vt.strip() in ('1', 'true') else 'FALSE')
                elif t == 'e':
                    if vt is not None:
                        cell.update(k='e', v=vt)
                else:
                    if vt is not None and vt.strip() != '':
                        cell.update(k='n', v=vt.strip())
                f = c.find(M + 'f')
                if f is not None:
                    ft = f.text or ''
                    if f.get('t') == 'shared':
                        si = f.get('si')
                        if ft != '' or si not in shared:
                            shared[si] = (coln, rown, ft)
                            cell['f'] = ft
                        else:
                            mc, mr, mf = shared[si]
                            g, ok = shift_formula(mf, coln - mc, rown - mr)
                            cell['f'] = g
                            cell['f_shared_child'] = True
                            if not ok:
                                cell['f_uncertain'] = True
                    else:
                        cell['f'] = ft
                if cell['k'] or cell['f'] or 'xf' in cell:
                    sheet['cells'][ref] = cell
        hl = ws.find(M + 'hyperlinks')
        for h in (hl if hl is not None else []):
            ref = h.get('ref').split(':')[0]
            cell = sheet['cells'].setdefault(ref, {'k': '', 'v': '', 'f': ''})
            rid = h.get(R + 'id')
            loc = h.get('location')
            if rid is not None:
                cell['link'] = srels[rid][1] if rid in srels else '<dangling %s>' % rid
                cell['loc'] = False
            if loc is not None and rid is None:
                cell['link'] = loc
                cell['loc'] = True
            if loc is not None and rid is not None:
                cell['link_both'] = loc
        mc = ws.find(M + 'mergeCells')
        for m_ in (mc if mc is not None else []):
            sheet['merges'].append(m_.get('ref'))
    dn = wb.find(M + 'definedNames')
    for d in (dn if dn is not None else []):
        res['names'].append([d.get('name'), d.text or '', d.get('localSheetId')])
    if styles is not None:
        res['styles'] = decode_styles(styles)
    return res


def decode_styles(st):
    """cellXfs resolved to number-format code and font name/size/bold (enough for xf resolution checks)"""
    BUILTIN = {0: 'General', 1: '0', 2: '0.00', 3: '#,##0', 4: '#,##0.00', 9: '0%', 10: '0.00%', 11: '0.00E+00', 12: '# ?/?', 13: '# ??/??', 14: 'mm-dd-yy',
               15: 'd-mmm-yy', 16: 'd-mmm', 17: 'mmm-yy', 18: 'h:mm AM/PM', 19: 'h:mm:ss AM/PM', 20: 'h:mm', 21: 'h:mm:ss', 22: 'm/d/yy h:mm', 37: '#,##0 ;(#,##0)',
               38: '#,##0 ;[Red](#,##0)', 39: '#,##0.00;(#,##0.00)', 40: '#,##0.00;[Red](#,##0.00)', 45: 'mm:ss', 46: '[h]:mm:ss', 47: 'mmss.0', 48: '##0.0E+0', 49: '@'}
    fmts = {}
    nf = st.find(M + 'numFmts')
    for x in (nf if nf is not None else []):
        fmts[int(x.get('numFmtId'))] = x.get('formatCode')
    fonts = []
    fe = st.find(M + 'fonts')
    for f in (fe if fe is not None else []):
        def val(tag, default=None):
            e = f.find(M + tag)
            return default if e is None else e.get('val')
        b = f.find(M + 'b')
        fonts.append({'name': val('name'), 'size': val('sz'), 'bold': b is not None and b.get('val') not in ('0', 'false')})
    out = []
    cx = st.find(M + 'cellXfs')
    for xf in (cx if cx is not None else []):
        nid = int(xf.get('numFmtId') or 0)
        fid = int(xf.get('fontId') or 0)
        out.append({'numFmtId': nid, 'code': fmts.get(nid, BUILTIN.get(nid)), 'font': fonts[fid] if fid < len(fonts) else None,
                    'applyNumberFormat': xf.get('applyNumberFormat'), 'applyFont': xf.get('applyFont')})
    return out


if __name__ == '__main__':
    import sys, json
    for p in sys.argv[1:]:
        print(json.dumps(decode(p), ensure_ascii=False)[:2000])
