"""C20 oracle: decode with the selected encoding (Python codecs), parse with an RFC-4180 parser
written here (not the csv module), compare with the intended grid."""
import json, os

RUST_WS = set("\t\n\x0b\x0c\r \x85\xa0                　")


def rust_trim(s):
    i, j = 0, len(s)
    while i < j and s[i] in RUST_WS:
        i += 1
    while j > i and s[j - 1] in RUST_WS:
        j -= 1
    return s[i:j]


def parse(text, delim=",", quote='"'):
    """RFC 4180: records end with CRLF (bare LF / CR also accepted as record ends outside quotes);
    a field that starts with the quote character runs to the matching quote, doubled quotes are literal."""
    recs, rec, i, n = [], [], 0, len(text)
    if n == 0:
        return recs
    while True:
        # parse one field
        if i < n and text[i] == quote:
            i += 1
            buf = []
            while True:
                if i >= n:
                    raise ValueError("unterminated quoted field")
                ch = text[i]
                if ch == quote:
                    if i + 1 < n and text[i + 1] == quote:
                        buf.append(quote)
                        i += 2
                        continue
                    i += 1
                    break
                buf.append(ch)
                i += 1
            field = "".join(buf)
            if i < n and text[i] not in (delim, "\r", "\n"):
                raise ValueError("garbage after closing quote at %d: %r" % (i, text[i:i + 10]))
        else:
            j = i
            while j < n and text[j] not in (delim, "\r", "\n"):
                j += 1
            field = text[i:j]
            i = j
        rec.append(field)
        if i >= n:
            recs.append(rec)
            return recs
        if text[i] == delim:
            i += 1
            continue
        # record end
        if text[i] == "\r" and i + 1 < n and text[i + 1] == "\n":
            i += 2
        else:
            i += 1
        recs.append(rec)
        rec = []
        if i >= n:
            return recs


def check(out_dir):
    n = 0
    divs = {}
    counters = {}

    def div(sig, case, detail, feats):
        e = divs.setdefault((sig, tuple(feats)), [0, []])
        e[0] += 1
        if len(e[1]) < 3:
            e[1].append({"cmd": "c20", "seed": case["seed"], "case": case["case"], "sig": sig, "features": list(feats), "detail": detail,
                         "descr": {k: case[k] for k in ("enc_lib", "trim", "wrap", "grid")}})

    for line in open(os.path.join(out_dir, "cases.jsonl"), encoding="utf-8"):
        c = json.loads(line)
        n += 1
        feats = [f for f in c["features"]]
        data = open(os.path.join(out_dir, "case-%d.csv" % c["case"]), "rb").read()
        key = "enc:" + c["enc_lib"]
        counters[key] = counters.get(key, 0) + 1
        if c["status"] != "ok":
            div("csv.call-failed", c, c["status"], feats)
            continue
        try:
            text = data.decode(c["encoding"])
        except Exception as e:
            div("csv.encoding." + c["enc_lib"], c, "bytes do not decode as %s: %s; head=%r" % (c["encoding"], e, data[:40]), feats)
            continue
        quote = c["wrap"] or '"'
        exp = [[rust_trim(v) if c["trim"] else v for v in row] for row in c["grid"]]
        try:
            got = parse(text, ",", quote)
        except ValueError as e:
            div("csv.unparseable", c, "%s; text=%r" % (e, text[:200]), feats)
            continue
        counters["fields"] = counters.get("fields", 0) + sum(len(r) for r in exp)
        if got != exp:
            if text and len(got) != len(exp):
                sig = "csv.record-count"
            elif any(len(a) != len(b) for a, b in zip(got, exp)):
                sig = "csv.field-count"
            else:
                sig = "csv.field-text"
            # does the decoded text at least contain what a UTF-8 mis-encoding would?
            div(sig, c, "parsed %r expected %r (text %r)" % (got[:4], exp[:4], text[:120]), feats)
    return n, counters, divs
