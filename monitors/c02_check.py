"""C02 monitor: validate each produced package and diff the independent decoder's model against
the pre-save dump written by the harness."""
import json, os, re, struct, sys
from multiprocessing import Pool
sys.path.insert(0, os.path.dirname(os.path.abspath(__file__)))
import xlsx_decode, xlsx_validate

KIND = {'text': 's', 'rich': 's', 'number': 'n', 'bool': 'b', 'error': 'e', 'blank': ''}
XESC = re.compile(r'_x[0-9A-Fa-f]{4}_')


def model_from_dump(d):
    sheets = {}
    names = {}
    for k, v in d.items():
        p = k.split('/')
        if p[0].startswith('sh') and p[0][2:].isdigit():
            i = int(p[0][2:])
            s = sheets.setdefault(i, {'cells': {}, 'links': {}, 'merges': {}})
            if p[1] == 'name':
                s['name'] = v
            elif p[1] == 'state':
                s['state'] = v
            elif p[1] == 'cell':
                s['cells'].setdefault(p[2], {})[p[3]] = v
            elif p[1] == 'link':
                s['links'][p[2]] = (v[2:], v[0] == 'L')
            elif p[1] == 'merge':
                s['merges']['/'.join(p[2:])] = int(v)
        elif p[0] == 'wb' and p[1] == 'name':
            names[(p[2], '/'.join(p[3:]))] = v
    return sheets, names


def fbits(text):
    try:
        return struct.pack('>d', float(text)).hex()
    except Exception:
        return 'unparseable:' + text


def check_one(arg):
    out_dir, line = arg
    c = json.loads(line)
    divs = []   # (sig, detail)
    stats = {'cells': 0, 'links': 0, 'merges': 0, 'names': 0, 'parts': 0}
    path = os.path.join(out_dir, 'case-%d.xlsx' % c['case'])
    data = open(path, 'rb').read()
    try:
        for cls, msg in xlsx_validate.validate(data):
            divs.append(('pkg.' + cls, msg[:300]))
    except Exception as e:
        divs.append(('pkg.validator-error', repr(e)[:300]))
    try:
        m = xlsx_decode.decode(data)
    except Exception as e:
        divs.append(('decode-failed', repr(e)[:300]))
        return c, divs, stats
    sheets, names = model_from_dump(c['dump'])
    dnames = [s['name'] for s in m['sheets']]
    exp_names = [sheets[i].get('name') for i in sorted(sheets)]
    if dnames != exp_names:
        divs.append(('sheet-list', 'file %r model %r' % (dnames, exp_names)))
        return c, divs, stats
    active = c['dump'].get('wb/active')
    if active is not None:
        got = dnames[m['active']] if m['active'] < len(dnames) else '<dangling %d>' % m['active']
        if got != active:
            divs.append(('active-sheet', 'file %r model %r' % (got, active)))
    for i in sorted(sheets):
        exp = sheets[i]
        got = m['sheets'][i]
        if got.get('kind'):
            continue
        if exp.get('state') and got['state'] != exp['state']:
            divs.append(('sheet-state', '%s: file %r model %r' % (exp.get('name'), got['state'], exp['state'])))
        gcells = got['cells']
        for ref, e in exp['cells'].items():
            stats['cells'] += 1
            g = gcells.get(ref)
            kind = e.get('k')
            if kind == 'lazy':
                continue
            if g is None or (not g['k'] and not g['f']):
                divs.append(('cell.missing[%s]' % kind, '%s!%s model %r' % (exp.get('name'), ref, e)))
                continue
            ek = KIND.get(kind, '?')
            if g['k'] != ek and not (ek == '' and g['k'] == 's' and g['v'] == ''):
                divs.append(('cell.kind[%s]' % kind, '%s!%s file kind %r value %r; model %r' % (exp.get('name'), ref, g['k'], g['v'][:60], e)))
                continue
            if kind == 'number':
                if fbits(g['v']) != e.get('n'):
                    divs.append(('cell.number', '%s!%s file %r model bits %s (%r)' % (exp.get('name'), ref, g['v'], e.get('n'), e.get('v'))))
            elif kind in ('text', 'rich', 'bool', 'error'):
                ev = e.get('v', '')
                if g['v'] != ev:
                    if ev.replace('\r\n', '\n').replace('\r', '\n') == g['v']:
                        sig = 'text.cr-not-preserved'
                    elif XESC.search(ev) and xlsx_decode.xstring(ev) == g['v']:
                        sig = 'text.xhhhh-literal-not-escaped'
                    else:
                        sig = 'cell.value[%s]' % kind
                    divs.append((sig, '%s!%s file %r model %r' % (exp.get('name'), ref, g['v'][:80], ev[:80])))
                if kind == 'rich' and not g.get('rich'):
                    divs.append(('cell.rich-lost', '%s!%s' % (exp.get('name'), ref)))
            ef = e.get('f', '')
            if not g.get('f_shared_child') and g['f'] != ef:
                divs.append(('cell.formula', '%s!%s file %r model %r' % (exp.get('name'), ref, g['f'][:80], ef[:80])))
        for ref, g in gcells.items():
            if (g['k'] or g['f']) and ref not in exp['cells']:
                divs.append(('cell.extra', '%s!%s file has %r, model has no such cell' % (exp.get('name'), ref, {k: g[k] for k in ('k', 'v', 'f')})))
        glinks = {ref: (g['link'], g['loc']) for ref, g in gcells.items() if 'link' in g}
        for ref, (url, loc) in exp['links'].items():
            stats['links'] += 1
            if ref not in glinks:
                divs.append(('link.missing', '%s!%s model %r' % (exp.get('name'), ref, url)))
            elif glinks[ref] != (url, loc):
                other = [r for r, v in exp['links'].items() if v == glinks[ref] and r != ref]
                divs.append(('link.target' + ('[sibling]' if other else ''), '%s!%s file %r model %r' % (exp.get('name'), ref, glinks[ref], (url, loc))))
        for ref in glinks:
            if ref not in exp['links']:
                divs.append(('link.extra', '%s!%s file %r' % (exp.get('name'), ref, glinks[ref])))
        gm = {}
        for r in got['merges']:
            gm[r] = gm.get(r, 0) + 1
        stats['merges'] += len(exp['merges'])
        if gm != exp['merges']:
            divs.append(('merges', '%s file %r model %r' % (exp.get('name'), sorted(gm.items())[:6], sorted(exp['merges'].items())[:6])))
    gn = {}
    for name, text, local in m['names']:
        gn.setdefault(('global' if local is None else 'local' + local, name), []).append(text)
    gn = {k: ' && '.join(sorted(v)) for k, v in gn.items()}
    stats['names'] += len(names)
    for k, v in names.items():
        if k not in gn:
            divs.append(('name.missing', '%r model %r' % (k, v)))
        elif gn[k] != v:
            divs.append(('name.refers-to', '%r file %r model %r' % (k, gn[k], v)))
    for k in gn:
        if k not in names:
            divs.append(('name.extra', '%r file %r' % (k, gn[k])))
    return c, divs, stats


def check(out_dir, procs=16):
    lines = [(out_dir, l) for l in open(os.path.join(out_dir, 'cases.jsonl'), encoding='utf-8')]
    groups = {}
    totals = {}
    with Pool(procs) as pool:
        for c, divs, stats in pool.imap_unordered(check_one, lines, chunksize=8):
            for k, v in stats.items():
                totals[k] = totals.get(k, 0) + v
            seen = {}
            for sig, detail in divs:
                seen[sig] = seen.get(sig, 0) + 1
                if seen[sig] > 1:
                    continue
                key = (sig, tuple(c['features']))
                e = groups.setdefault(key, [0, []])
                e[0] += 1
                if len(e[1]) < 3:
                    e[1].append({'cmd': 'c02', 'seed': c['seed'], 'case': c['case'], 'sig': sig, 'features': c['features'], 'detail': '%s: %s' % (c['origin'], detail)})
    return len(lines), totals, groups
