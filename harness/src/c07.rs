//! C07: structural edits relocate content exactly like a reference grid.
//! A reference grid model executes the same history as the library; the full observable state of
//! every sheet is compared after every operation.
use crate::common::*;
use std::collections::BTreeMap;
use umya_spreadsheet::helper::coordinate::{coordinate_from_index, string_from_column_index};
use umya_spreadsheet::*;

#[derive(Clone, Debug, PartialEq)]
pub struct Rect {
    pub c1: u32,
    pub r1: u32,
    pub c2: u32,
    pub r2: u32,
}
impl Rect {
    pub fn s(&self) -> String {
        format!("{}:{}", coordinate_from_index(&self.c1, &self.r1), coordinate_from_index(&self.c2, &self.r2))
    }
}
#[derive(Clone, Debug, PartialEq)]
struct CellRec {
    val: String,
    formula: String,
    link: Option<String>,
    size: Option<u32>, // font size used as a style tag
}
#[derive(Clone, Debug, Default)]
struct MSheet {
    cells: BTreeMap<(u32, u32), CellRec>,
    merges: Vec<Rect>,
    comments: Vec<(u32, u32, String)>,
    cf: Vec<Rect>,
    filter: Option<Rect>,
    heights: BTreeMap<u32, u64>,
    widths: BTreeMap<u32, u64>,
    /// font size (style tag) carried by a row / column setting
    row_styles: BTreeMap<u32, u32>,
    col_styles: BTreeMap<u32, u32>,
    /// conditional formats over whole columns ("B:C") and whole rows ("3:4"), as other producers write them
    cf_cols: Vec<(u32, u32)>,
    cf_rows: Vec<(u32, u32)>,
}
fn ins(x: u32, p: u32, n: u32) -> u32 {
    if x >= p {
        x + n
    } else {
        x
    }
}
fn rem(x: u32, p: u32, n: u32) -> Option<u32> {
    if x < p {
        Some(x)
    } else if x < p + n {
        None
    } else {
        Some(x - n)
    }
}
/// a..=b after removing the band p..p+n: wholly inside -> gone; a corner inside clamps to the band edge
fn rem_rect_axis(a: u32, b: u32, p: u32, n: u32) -> Option<(u32, u32)> {
    if a >= p && b < p + n {
        return None;
    }
    let a2 = if a < p { a } else if a < p + n { p } else { a - n };
    let b2 = if b < p { b } else if b < p + n { p - 1 } else { b - n };
    Some((a2, b2))
}
impl MSheet {
    fn insert(&mut self, is_row: bool, p: u32, n: u32) {
        let f = |c: u32, r: u32| if is_row { (c, ins(r, p, n)) } else { (ins(c, p, n), r) };
        self.cells = self.cells.iter().map(|(&(c, r), v)| (f(c, r), v.clone())).collect();
        for m in self.merges.iter_mut().chain(self.cf.iter_mut()).chain(self.filter.iter_mut()) {
            let (c1, r1) = f(m.c1, m.r1);
            let (c2, r2) = f(m.c2, m.r2);
            *m = Rect { c1, r1, c2, r2 };
        }
        for cm in self.comments.iter_mut() {
            let (c, r) = f(cm.0, cm.1);
            cm.0 = c;
            cm.1 = r;
        }
        if is_row {
            self.cf_rows = self.cf_rows.iter().map(|&(a, b)| (ins(a, p, n), ins(b, p, n))).collect();
        } else {
            self.cf_cols = self.cf_cols.iter().map(|&(a, b)| (ins(a, p, n), ins(b, p, n))).collect();
        }
        if is_row {
            self.heights = self.heights.iter().map(|(&r, &h)| (ins(r, p, n), h)).collect();
            self.row_styles = self.row_styles.iter().map(|(&r, &h)| (ins(r, p, n), h)).collect();
        } else {
            self.widths = self.widths.iter().map(|(&c, &w)| (ins(c, p, n), w)).collect();
            self.col_styles = self.col_styles.iter().map(|(&c, &w)| (ins(c, p, n), w)).collect();
        }
    }
    fn remove(&mut self, is_row: bool, p: u32, n: u32) {
        let f = |c: u32, r: u32| -> Option<(u32, u32)> {
            if is_row {
                rem(r, p, n).map(|r| (c, r))
            } else {
                rem(c, p, n).map(|c| (c, r))
            }
        };
        self.cells = self.cells.iter().filter_map(|(&(c, r), v)| f(c, r).map(|k| (k, v.clone()))).collect();
        let g = |m: &Rect| -> Option<Rect> {
            if is_row {
                rem_rect_axis(m.r1, m.r2, p, n).map(|(a, b)| Rect { c1: m.c1, r1: a, c2: m.c2, r2: b })
            } else {
                rem_rect_axis(m.c1, m.c2, p, n).map(|(a, b)| Rect { c1: a, r1: m.r1, c2: b, r2: m.r2 })
            }
        };
        self.merges = self.merges.iter().filter_map(g).collect();
        self.cf = self.cf.iter().filter_map(g).collect();
        self.filter = self.filter.as_ref().and_then(g);
        self.comments = self.comments.iter().filter_map(|(c, r, t)| f(*c, *r).map(|(c, r)| (c, r, t.clone()))).collect();
        if is_row {
            self.cf_rows = self.cf_rows.iter().filter_map(|&(a, b)| rem_rect_axis(a, b, p, n)).collect();
        } else {
            self.cf_cols = self.cf_cols.iter().filter_map(|&(a, b)| rem_rect_axis(a, b, p, n)).collect();
        }
        if is_row {
            self.heights = self.heights.iter().filter_map(|(&r, &h)| rem(r, p, n).map(|r| (r, h))).collect();
            self.row_styles = self.row_styles.iter().filter_map(|(&r, &h)| rem(r, p, n).map(|r| (r, h))).collect();
        } else {
            self.widths = self.widths.iter().filter_map(|(&c, &w)| rem(c, p, n).map(|c| (c, w))).collect();
            self.col_styles = self.col_styles.iter().filter_map(|(&c, &w)| rem(c, p, n).map(|c| (c, w))).collect();
        }
    }
    fn mv(&mut self, rc: &Rect, dr: i32, dc: i32, is_move: bool) {
        let src: Vec<((u32, u32), CellRec)> = self.cells.iter().filter(|(&(c, r), _)| c >= rc.c1 && c <= rc.c2 && r >= rc.r1 && r <= rc.r2).map(|(k, v)| (*k, v.clone())).collect();
        if is_move {
            for c in rc.c1..=rc.c2 {
                for r in rc.r1..=rc.r2 {
                    self.cells.remove(&(c, r));
                    self.cells.remove(&(((c as i32) + dc) as u32, ((r as i32) + dr) as u32));
                }
            }
        }
        for ((c, r), v) in src {
            self.cells.insert((((c as i32) + dc) as u32, ((r as i32) + dr) as u32), v);
        }
    }
    fn dump(&self) -> Vec<String> {
        let mut o = vec![];
        for ((c, r), v) in &self.cells {
            o.push(format!("CELL {}{} v={} f={} link={:?} size={:?}", string_from_column_index(c), r, v.val, v.formula, v.link, v.size));
        }
        let mut m: Vec<String> = self.merges.iter().map(|x| x.s()).collect();
        m.sort();
        o.push(format!("MERGES {:?}", m));
        let mut m: Vec<String> = self.cf.iter().map(|x| x.s()).collect();
        m.extend(self.cf_cols.iter().map(|(a, b)| format!("{}:{}", string_from_column_index(a), string_from_column_index(b))));
        m.extend(self.cf_rows.iter().map(|(a, b)| format!("{}:{}", a, b)));
        m.sort();
        o.push(format!("CF {:?}", m));
        o.push(format!("FILTER {:?}", self.filter.as_ref().map(|x| x.s())));
        let mut m: Vec<String> = self.comments.iter().map(|(c, r, t)| format!("{}{}={}", string_from_column_index(c), r, t)).collect();
        m.sort();
        o.push(format!("COMMENTS {:?}", m));
        o.push(format!("HEIGHTS {:?}", self.heights));
        o.push(format!("WIDTHS {:?}", self.widths));
        o.push(format!("ROWSTYLES {:?}", self.row_styles));
        o.push(format!("COLSTYLES {:?}", self.col_styles));
        o
    }
}

fn lib_dump(ws: &Worksheet) -> Vec<String> {
    let mut o = vec![];
    let mut cells: Vec<(u32, u32, String)> = vec![];
    for c in ws.get_cell_collection() {
        if c.get_value() == "" && c.get_formula() == "" && c.get_hyperlink().is_none() {
            continue;
        }
        let size = c.get_style().get_font().map(|f| *f.get_size() as u32).filter(|s| *s >= 20);
        cells.push((
            *c.get_coordinate().get_col_num(),
            *c.get_coordinate().get_row_num(),
            format!("v={} f={} link={:?} size={:?}", c.get_value(), c.get_formula(), c.get_hyperlink().map(|h| h.get_url().to_string()), size),
        ));
    }
    cells.sort();
    for (c, r, s) in cells {
        o.push(format!("CELL {}{} {}", if c >= 1 && c <= 16384 { string_from_column_index(&c) } else { format!("<col {}>", c) }, r, s));
    }
    let mut m: Vec<String> = ws.get_merge_cells().iter().map(|x| x.get_range()).collect();
    m.sort();
    o.push(format!("MERGES {:?}", m));
    let mut m: Vec<String> = ws.get_conditional_formatting_collection().iter().flat_map(|cf| cf.get_sequence_of_references().get_range_collection().iter().map(|r| r.get_range()).collect::<Vec<_>>()).collect();
    m.sort();
    o.push(format!("CF {:?}", m));
    o.push(format!("FILTER {:?}", ws.get_auto_filter().map(|a| a.get_range().get_range())));
    let mut m: Vec<String> = ws.get_comments().iter().map(|c| format!("{}={}", c.get_coordinate().get_coordinate(), c.get_text().get_text())).collect();
    m.sort();
    o.push(format!("COMMENTS {:?}", m));
    let mut h = BTreeMap::new();
    for r in ws.get_row_dimensions() {
        if *r.get_height() != 0.0 {
            h.insert(*r.get_row_num(), *r.get_height() as u64);
        }
    }
    o.push(format!("HEIGHTS {:?}", h));
    let mut w = BTreeMap::new();
    for c in ws.get_column_dimensions() {
        if *c.get_width() >= 20.0 {
            w.insert(*c.get_col_num(), *c.get_width() as u64);
        }
    }
    o.push(format!("WIDTHS {:?}", w));
    let tag = |st: &Style| st.get_font().map(|f| *f.get_size() as u32).filter(|s| *s >= 20);
    let rs: BTreeMap<u32, u32> = ws.get_row_dimensions().iter().filter_map(|r| tag(r.get_style()).map(|t| (*r.get_row_num(), t))).collect();
    o.push(format!("ROWSTYLES {:?}", rs));
    let cs: BTreeMap<u32, u32> = ws.get_column_dimensions().iter().filter_map(|c| tag(c.get_style()).map(|t| (*c.get_col_num(), t))).collect();
    o.push(format!("COLSTYLES {:?}", cs));
    o
}

const W: u32 = 12;
const H: u32 = 14;

fn rect_in(rng: &mut Rng) -> Rect {
    let c1 = rng.range(1, W - 1);
    let r1 = rng.range(1, H - 1);
    Rect { c1, r1, c2: rng.range(c1, W), r2: rng.range(r1, H) }
}

pub fn run(args: &Args) {
    let agg = run_cases(args, |seed, case| {
        let mut o = Outcome::default();
        let mut rng = Rng::new(seed, case);
        let nsheets = rng.range(1, 3) as usize;
        let names: Vec<String> = (0..nsheets).map(|i| ["S1", "Other Sheet", "Q&A"][i].to_string()).collect();
        let mut book = crate::gen::new_book(&names);
        let mut model: Vec<MSheet> = vec![MSheet::default(); nsheets];
        let mut uid = 0u32;
        // far corner of the grid: content next to the limits (edits there must stay in range)
        let near_limits = rng.chance(1, 6);
        let (ox, oy) = if near_limits { (16384 - W - 8, 1_048_576 - H - 8) } else { (0, 0) };
        if near_limits {
            o.feat("near-grid-limits");
        }
        let mut hist: Vec<String> = vec![];
        let setup = guard(|| {
            for si in 0..nsheets {
                let ws = book.get_sheet_mut(&si).unwrap();
                for _ in 0..rng.range(5, 30) {
                    let (c, r) = (ox + rng.range(1, W), oy + rng.range(1, H));
                    uid += 1;
                    let v = format!("v{}", uid);
                    let cell = ws.get_cell_mut((c, r));
                    let mut rec = CellRec { val: v.clone(), formula: String::new(), link: model[si].cells.get(&(c, r)).and_then(|x| x.link.clone()), size: model[si].cells.get(&(c, r)).and_then(|x| x.size) };
                    match rng.below(6) {
                        0 => {
                            let f = format!("{}+{}", uid, 1);
                            cell.set_formula(f.clone());
                            cell.set_formula_result_default(v.clone());
                            rec.formula = f;
                        }
                        _ => {
                            cell.set_value_string(v.clone());
                        }
                    }
                    if rng.chance(1, 5) {
                        let l = format!("http://h/{}", uid);
                        cell.get_hyperlink_mut().set_url(l.clone());
                        rec.link = Some(l);
                    }
                    if rng.chance(1, 4) {
                        let size = 20 + uid % 60;
                        cell.get_style_mut().get_font_mut().set_size(size as f64);
                        rec.size = Some(size);
                    }
                    model[si].cells.insert((c, r), rec);
                }
                let shift = |rc: Rect| Rect { c1: rc.c1 + ox, r1: rc.r1 + oy, c2: rc.c2 + ox, r2: rc.r2 + oy };
                for _ in 0..rng.range(0, 3) {
                    let rc = shift(rect_in(&mut rng));
                    ws.add_merge_cells(rc.s());
                    model[si].merges.push(rc);
                }
                for _ in 0..rng.range(0, 2) {
                    let rc = shift(rect_in(&mut rng));
                    let mut cf = ConditionalFormatting::default();
                    cf.get_sequence_of_references_mut().set_sqref(rc.s());
                    let mut rule = ConditionalFormattingRule::default();
                    rule.set_type(ConditionalFormatValues::CellIs);
                    cf.add_conditional_collection(rule);
                    ws.add_conditional_formatting_collection(cf);
                    model[si].cf.push(rc);
                }
                if rng.chance(1, 3) {
                    // a conditional format over whole columns or whole rows
                    let whole_cols = rng.chance(1, 2);
                    let a = if whole_cols { ox + rng.range(1, W - 1) } else { oy + rng.range(1, H - 1) };
                    let b = a + rng.range(0, 2);
                    let sq = if whole_cols { format!("{}:{}", string_from_column_index(&a), string_from_column_index(&b)) } else { format!("{}:{}", a, b) };
                    let mut cf = ConditionalFormatting::default();
                    cf.get_sequence_of_references_mut().set_sqref(sq);
                    let mut rule = ConditionalFormattingRule::default();
                    rule.set_type(ConditionalFormatValues::CellIs);
                    cf.add_conditional_collection(rule);
                    ws.add_conditional_formatting_collection(cf);
                    if whole_cols {
                        model[si].cf_cols.push((a, b));
                    } else {
                        model[si].cf_rows.push((a, b));
                    }
                }
                if rng.chance(1, 2) {
                    let rc = shift(rect_in(&mut rng));
                    ws.set_auto_filter(rc.s());
                    model[si].filter = Some(rc);
                }
                for _ in 0..rng.range(0, 3) {
                    let (c, r) = (ox + rng.range(1, W), oy + rng.range(1, H));
                    if model[si].comments.iter().any(|x| (x.0, x.1) == (c, r)) {
                        continue;
                    }
                    uid += 1;
                    let mut cm = Comment::default();
                    cm.new_comment((c, r));
                    cm.set_text_string(format!("c{}", uid));
                    ws.add_comments(cm);
                    model[si].comments.push((c, r, format!("c{}", uid)));
                }
                for _ in 0..rng.range(0, 3) {
                    let r = oy + rng.range(1, H);
                    uid += 1;
                    let h = (30 + uid % 50) as u64;
                    ws.get_row_dimension_mut(&r).set_height(h as f64);
                    model[si].heights.insert(r, h);
                    if rng.chance(1, 2) {
                        // the row setting also carries formatting
                        let t = 100 + uid % 40;
                        ws.get_row_dimension_mut(&r).get_style_mut().get_font_mut().set_size(t as f64);
                        model[si].row_styles.insert(r, t);
                    }
                }
                for _ in 0..rng.range(0, 3) {
                    let c = ox + rng.range(1, W);
                    uid += 1;
                    let w = (20 + uid % 50) as u64;
                    ws.get_column_dimension_by_number_mut(&c).set_width(w as f64);
                    model[si].widths.insert(c, w);
                    if rng.chance(1, 2) {
                        let t = 150 + uid % 40;
                        ws.get_column_dimension_by_number_mut(&c).get_style_mut().get_font_mut().set_size(t as f64);
                        model[si].col_styles.insert(c, t);
                    }
                }
            }
        });
        if let Err(e) = setup {
            o.inconclusive = Some(format!("setup panicked: {}", e));
            return o;
        }
        let nops = if rng.chance(1, 4) { rng.range(12, 40) } else { rng.range(1, 12) };
        let mut kinds_seen = std::collections::BTreeSet::new();
        'hist: for opi in 0..nops {
            let si = rng.below(nsheets as u64) as usize;
            let kind = rng.below(8);
            let wb_level = rng.chance(1, 2);
            // positions: first row/column, inside the content, right after it
            let (base, span) = if kind == 2 || kind == 3 { (ox, W) } else { (oy, H) };
            let p = match rng.below(5) {
                0 => 1,
                1 => base + rng.range(1, 3),
                2 => base + span + rng.range(0, 2),
                _ => base + rng.range(1, span),
            };
            let n = match rng.below(3) {
                0 => 1,
                _ => rng.range(1, 4),
            };
            let name = names[si].clone();
            let mut desc = String::new();
            let mut apply_model: Box<dyn FnMut(&mut Vec<MSheet>)> = Box::new(|_| {});
            let res = match kind {
                0..=3 => {
                    let is_row = kind < 2;
                    let is_ins = kind % 2 == 0;
                    if is_ins {
                        // in-range arguments only: the model result must stay on the grid
                        let ms = &model[si];
                        let maxr = ms.cells.keys().map(|k| k.1).chain(ms.merges.iter().chain(ms.cf.iter()).chain(ms.filter.iter()).map(|r| r.r2)).chain(ms.comments.iter().map(|c| c.1)).chain(ms.heights.keys().cloned()).chain(ms.cf_rows.iter().map(|r| r.1)).max().unwrap_or(0);
                        let maxc = ms.cells.keys().map(|k| k.0).chain(ms.merges.iter().chain(ms.cf.iter()).chain(ms.filter.iter()).map(|r| r.c2)).chain(ms.comments.iter().map(|c| c.0)).chain(ms.widths.keys().cloned()).chain(ms.cf_cols.iter().map(|r| r.1)).max().unwrap_or(0);
                        if (is_row && maxr + n > 1_048_576) || (!is_row && maxc + n > 16384) {
                            continue 'hist;
                        }
                    }
                    desc = format!("{}_{} {} p={} n={} level={}", if is_ins { "insert" } else { "remove" }, if is_row { "row" } else { "col" }, name, p, n, if wb_level { "workbook" } else { "sheet" });
                    apply_model = Box::new(move |m: &mut Vec<MSheet>| if is_ins { m[si].insert(is_row, p, n) } else { m[si].remove(is_row, p, n) });
                    guard(|| match (kind, wb_level) {
                        (0, true) => book.insert_new_row(&name, &p, &n),
                        (0, false) => book.get_sheet_mut(&si).unwrap().insert_new_row(&p, &n),
                        (1, true) => book.remove_row(&name, &p, &n),
                        (1, false) => book.get_sheet_mut(&si).unwrap().remove_row(&p, &n),
                        (2, true) => book.insert_new_column_by_index(&name, &p, &n),
                        (2, false) => book.get_sheet_mut(&si).unwrap().insert_new_column_by_index(&p, &n),
                        (3, true) => book.remove_column_by_index(&name, &p, &n),
                        _ => book.get_sheet_mut(&si).unwrap().remove_column_by_index(&p, &n),
                    })
                }
                4 | 5 => {
                    let c1 = ox + rng.range(1, W);
                    let r1 = oy + rng.range(1, H);
                    let rc = Rect { c1, r1, c2: rng.range(c1, c1 + 4), r2: rng.range(r1, r1 + 4) };
                    // half of the moves/copies overlap their own source (translation smaller than the rectangle)
                    let (dr, dc) = if rng.chance(1, 2) {
                        (rng.irange(-((rc.r2 - rc.r1) as i64), (rc.r2 - rc.r1) as i64) as i32, rng.irange(-((rc.c2 - rc.c1) as i64), (rc.c2 - rc.c1) as i64) as i32)
                    } else {
                        (rng.irange(-4, 4) as i32, rng.irange(-4, 4) as i32)
                    };
                    if (rc.c1 as i64 + dc as i64) < 1 || (rc.r1 as i64 + dr as i64) < 1 || rc.c2 as i64 + dc as i64 > 16384 || rc.r2 as i64 + dr as i64 > 1_048_576 || rc.c2 > 16384 || rc.r2 > 1_048_576 {
                        continue 'hist;
                    }
                    let is_move = kind == 4;
                    desc = format!("{} {} {} dr={} dc={}", if is_move { "move_range" } else { "copy_range" }, name, rc.s(), dr, dc);
                    let rc2 = rc.clone();
                    apply_model = Box::new(move |m: &mut Vec<MSheet>| m[si].mv(&rc2, dr, dc, is_move));
                    guard(|| {
                        let ws = book.get_sheet_mut(&si).unwrap();
                        if is_move {
                            ws.move_range(&rc.s(), &dr, &dc);
                        } else {
                            ws.copy_range(&rc.s(), &dr, &dc);
                        }
                    })
                }
                6 => {
                    let (c, r) = (ox + rng.range(1, W), oy + rng.range(1, H));
                    uid += 1;
                    let v = format!("v{}", uid);
                    desc = format!("set_cell {} {}{}", name, string_from_column_index(&c), r);
                    let v2 = v.clone();
                    apply_model = Box::new(move |m: &mut Vec<MSheet>| {
                        let keep = m[si].cells.get(&(c, r)).cloned();
                        // a cell that get_cell_mut creates takes the formatting of its row / column setting, as in Excel: size 0 = not compared
                        let fresh = keep.is_none() && (m[si].row_styles.contains_key(&r) || m[si].col_styles.contains_key(&c));
                        m[si].cells.insert((c, r), CellRec { val: v2.clone(), formula: String::new(), link: keep.as_ref().and_then(|x| x.link.clone()), size: if fresh { Some(0) } else { keep.and_then(|x| x.size) } });
                    });
                    guard(|| {
                        book.get_sheet_mut(&si).unwrap().get_cell_mut((c, r)).set_value_string(v);
                    })
                }
                _ => {
                    let (c, r) = (ox + rng.range(1, W), oy + rng.range(1, H));
                    desc = format!("remove_cell {} {}{}", name, string_from_column_index(&c), r);
                    apply_model = Box::new(move |m: &mut Vec<MSheet>| {
                        m[si].cells.remove(&(c, r));
                    });
                    guard(|| {
                        book.get_sheet_mut(&si).unwrap().remove_cell((c, r));
                    })
                }
            };
            hist.push(desc.clone());
            let opname = desc.split(' ').next().unwrap_or("").to_string();
            kinds_seen.insert(opname.clone());
            o.count(&format!("op.{}", opname), 1);
            if let Err(e) = res {
                o.div(format!("panic:{}:{}", opname, panic_site(&e)), format!("op {} [{}] panicked: {}; history {:?}", opi, desc, e, hist));
                break 'hist;
            }
            apply_model(&mut model);
            for sj in 0..nsheets {
                o.observations += 1;
                let l = match guard(|| lib_dump(book.get_sheet(&sj).unwrap())) {
                    Ok(l) => l,
                    Err(e) => {
                        o.div(format!("observer-panic:{}:{}", opname, panic_site(&e)), format!("state not printable after op {} [{}]: {}; history {:?}", opi, desc, e, hist));
                        break 'hist;
                    }
                };
                let m = model[sj].dump();
                let mut l = l;
                for ((c, r), v) in model[sj].cells.iter().filter(|(_, v)| v.size == Some(0)) {
                    let prefix = format!("CELL {}{} ", string_from_column_index(c), r);
                    let _ = v;
                    for line in l.iter_mut().filter(|x| x.starts_with(&prefix)) {
                        if let Some(i) = line.rfind(" size=") {
                            line.truncate(i);
                            line.push_str(" size=Some(0)");
                        }
                    }
                }
                if l != m {
                    let mut diffs = vec![];
                    for x in &m {
                        if !l.contains(x) {
                            diffs.push(format!("expected {}", x));
                        }
                    }
                    for x in &l {
                        if !m.contains(x) {
                            diffs.push(format!("got {}", x));
                        }
                    }
                    let what = diffs.get(0).map(|d| d.split(' ').nth(1).unwrap_or("").to_string()).unwrap_or_default();
                    let sig = format!("{}:{}:{}", opname, if sj == si { "edited-sheet" } else { "OTHER-sheet" }, what);
                    o.div(sig, format!("after op {} [{}] sheet {}: {:?}; history {:?}", opi, desc, names[sj], diffs.iter().take(4).collect::<Vec<_>>(), hist));
                    break 'hist;
                }
            }
        }
        o.count("ops", hist.len() as u64);
        o.nontrivial = !hist.is_empty();
        o.hash = fnv(&format!("{:?}{:?}", hist, model.iter().map(|m| m.dump()).collect::<Vec<_>>()));
        o.descr = J::A(hist.iter().take(12).map(js).collect());
        o
    });
    finish(args, agg, vec![]);
}
