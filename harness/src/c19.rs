//! C19: formatted values show the correctly rounded number.
//! The harness drives Cell::get_formatted_value / to_formatted_string and records
//! (bits, pattern, output) rows; the exact big-decimal oracle is monitors/decfmt.py.
use crate::common::*;
use std::io::Write;
use umya_spreadsheet::helper::number_format::to_formatted_string;
use umya_spreadsheet::*;

pub const PATTERNS: &[&str] = &[
    "0", "0.0", "0.00", "0.000", "0.0000", "0.00000", "0.000000", "#,##0", "#,##0.0", "#,##0.00", "#,##0.000", "#,##0.0000", "#,##0.000000", "0%", "0.0%", "0.00%",
    "0.000%", "0.000000%", "General",
];

/// decimal string with <= 15 significant digits, biased to the interesting shapes
fn gen_number(rng: &mut Rng) -> String {
    if rng.chance(1, 12) {
        // just below a tie far behind the point: d zeros, a 4, then 9s beyond the 15th decimal place (<= 15 significant digits)
        let d = rng.range(1, 8) as usize;
        let n9 = rng.range((14usize.saturating_sub(d)).max(1) as u32, 13) as usize;
        let tail = *rng.pick(&['5', '6', '9', '1']);
        let txt = format!("0.{}4{}{}", "0".repeat(d), "9".repeat(n9), tail);
        return if rng.chance(1, 4) { format!("-{}", txt) } else { txt };
    }
    let digits = match rng.below(5) {
        0 => rng.range(1, 3),
        1 => 15,
        _ => rng.range(1, 15),
    } as usize;
    let mut s = String::new();
    let style = rng.below(5);
    for k in 0..digits {
        let d = match style {
            0 => 9,                                                     // 9-chains
            1 => if k + 1 == digits { 5 } else { rng.below(10) },       // ties
            2 => if rng.chance(1, 2) { 0 } else { rng.below(10) },      // zeros inside
            _ => match rng.below(6) { 0 => 9, 1 => 0, 2 => 5, _ => rng.below(10) },
        };
        let d = if k == 0 && d == 0 { 1 + rng.below(9) } else { d };
        s.push((b'0' + d as u8) as char);
    }
    if style == 0 && rng.chance(1, 2) {
        let last = [b'4', b'5', b'6', b'9'][rng.below(4) as usize] as char;
        s.pop();
        s.push(last);
    }
    // position of the decimal point relative to the first digit: magnitudes 1e-7 .. 1e15
    let point = rng.irange(-6, 15);
    let txt = if point <= 0 {
        format!("0.{}{}", "0".repeat((-point) as usize), s)
    } else if (point as usize) >= digits {
        format!("{}{}", s, "0".repeat(point as usize - digits))
    } else {
        format!("{}.{}", &s[..point as usize], &s[point as usize..])
    };
    if rng.chance(1, 4) {
        format!("-{}", txt)
    } else {
        txt
    }
}

pub fn run(args: &Args) {
    let n = args.cases;
    let nshards = 32u64;
    let per = (n + nshards - 1) / nshards;
    std::fs::create_dir_all(&args.out).unwrap();
    let a2 = Args { cases: nshards, ..Args::parse() };
    let agg = run_cases(&a2, |seed, k| {
        let mut o = Outcome::default();
        o.nontrivial = true;
        o.hash = k;
        let mut rng = Rng::new(seed, k);
        let mut f = std::io::BufWriter::new(std::fs::File::create(format!("{}/rows-{}.tsv", args.out, k)).unwrap());
        let mut book = new_file();
        for i in 0..per {
            let txt = gen_number(&mut rng);
            let v: f64 = txt.parse().unwrap();
            let pat = *rng.pick(PATTERNS);
            let via_cell = rng.chance(2, 3);
            let out = if via_cell {
                let ws = book.get_sheet_mut(&0).unwrap();
                let c = ws.get_cell_mut("A1");
                c.set_value_number(v);
                c.get_style_mut().get_number_format_mut().set_format_code(pat);
                guard(|| book.get_sheet(&0).unwrap().get_formatted_value("A1"))
            } else {
                let vs = v.to_string();
                guard(|| to_formatted_string(&vs, pat))
            };
            o.observations += 1;
            let (kind, text) = match out {
                Ok(s) => ("ok", s),
                Err(e) => ("panic", e),
            };
            writeln!(f, "num\t{}\t{:016x}\t{}\t{}\t{}\t{}", k * per + i, v.to_bits(), pat, if via_cell { "cell" } else { "helper" }, kind, text.replace('\t', " ").replace('\n', " ")).unwrap();
        }
        // every built-in format id x a fixed number set: must not panic
        if k < 4 {
            let nums: [f64; 14] = [0.0, 1.0, -1.0, 0.5, -0.5, 1234.5678, -1234.5678, 0.000123, 1e15, 45000.75, 59.0, 60.0, 61.99, 123456789012345.0];
            for id in 0u32..=50 {
                for (j, &v) in nums.iter().enumerate() {
                    if (j as u64) % 4 != k {
                        continue;
                    }
                    let mut b2 = new_file();
                    let ok_set = guard(|| {
                        let c = b2.get_sheet_mut(&0).unwrap().get_cell_mut("A1");
                        c.set_value_number(v);
                        c.get_style_mut().get_number_format_mut().set_number_format_id(id);
                    });
                    let code = b2.get_sheet(&0).unwrap().get_cell("A1").and_then(|c| c.get_style().get_number_format().map(|n| n.get_format_code().to_string())).unwrap_or_default();
                    if ok_set.is_err() {
                        // ids the library has no code for (5-8, 23-36, 41-44, 50): set_number_format_id rejects
                        // them by contract; that is not formatting
                        o.count("builtin.unsupported_id", 1);
                        continue;
                    }
                    let out = guard(|| b2.get_sheet(&0).unwrap().get_formatted_value("A1"));
                    o.observations += 1;
                    let (kind, text) = match out {
                        Ok(s) => ("ok", s),
                        Err(e) => ("panic", e),
                    };
                    writeln!(f, "builtin\t{}\t{:016x}\t{}\t{}\t{}\t{}", id, v.to_bits(), code.replace('\t', " "), "cell", kind, text.replace('\t', " ").replace('\n', " ")).unwrap();
                }
            }
            // General must show text unchanged
            let texts = ["hello", "1.50", "007", "1e3", " 12 ", "+5", "1,000", "0x10", "12abc", "TRUE", "-", "3.", ".5", "1_000", "１２", "NaN", "inf", "2024-01-01"];
            for (j, t) in texts.iter().enumerate() {
                if (j as u64) % 4 != k {
                    continue;
                }
                let mut b2 = new_file();
                b2.get_sheet_mut(&0).unwrap().get_cell_mut("A1").set_value_string(*t);
                let out = guard(|| b2.get_sheet(&0).unwrap().get_formatted_value("A1"));
                o.observations += 1;
                let (kind, text) = match out {
                    Ok(s) => ("ok", s),
                    Err(e) => ("panic", e),
                };
                writeln!(f, "text\t{}\t-\tGeneral\tcell\t{}\t{}", t, kind, text).unwrap();
            }
        }
        f.flush().unwrap();
        o.descr = jo(vec![("rows_file", js(format!("rows-{}.tsv", k)))]);
        o
    });
    finish(&a2, agg, vec![("shards", J::I(nshards as i64))]);
}
