//! C02: written files are valid packages that an independent reader decodes to the model.
//! The harness builds workbooks (cells + styles + annotations + tables, optional macro payload),
//! saves them and writes the bytes plus the pre-save public-getter dump; monitors/c02_check.py
//! validates the package and diffs the independent decoder's model against the dump.
//! Second workload: every corpus file loaded and re-saved by the library.
use crate::common::*;
use crate::dump::*;
use crate::gen::*;
use std::io::Write;
use umya_spreadsheet::*;

pub fn build(rng: &mut Rng, o: &mut Outcome) -> Spreadsheet {
    let mut book = crate::c06::build(rng, o);
    let ctrl = rng.chance(1, 12);
    if ctrl {
        o.feat("xml-illegal-chars");
    }
    let mut uid = 100_000u32;
    let n = book.get_sheet_count();
    let styles: Vec<Style> = (0..rng.range(1, 12)).map(|_| rand_style(rng)).collect();
    for si in 0..n {
        let ws = book.get_sheet_mut(&si).unwrap();
        let ncells = rng.range(0, 30);
        crate::c01::fill_cells(rng, ws, ncells, ctrl, false, &mut uid, o);
        for _ in 0..rng.range(0, 10) {
            let pos = (rng.range(1, 14), rng.range(1, 45));
            ws.set_style(pos, rng.pick(&styles).clone());
        }
        if rng.chance(1, 3) {
            ws.get_row_dimension_mut(&rng.range(1, 30)).set_style(rng.pick(&styles).clone()).set_height(22.5);
            ws.get_column_dimension_by_number_mut(&rng.range(1, 12)).set_style(rng.pick(&styles).clone()).set_width(17.0);
        }
        if rng.chance(1, 3) {
            uid += 1;
            let (c1, r1) = (rng.range(15, 20), rng.range(50, 55));
            let ncols = rng.range(1, 3);
            let mut t = Table::new(&format!("Table{}", uid), ((c1, r1), (c1 + ncols - 1, r1 + rng.range(1, 4))));
            for j in 0..ncols {
                let name = format!("Col{} <&> {}", j, uid);
                ws.get_cell_mut((c1 + j, r1)).set_value_string(name.clone());
                t.add_column(TableColumn::new(&name));
            }
            ws.add_table(t);
            o.count("tables", 1);
        }
    }
    if rng.chance(1, 6) {
        // a sheet with row / column settings and not a single cell
        let name = format!("No cells {}", uid);
        if book.new_sheet(name.as_str()).is_ok() {
            let ws = book.get_sheet_by_name_mut(&name).unwrap();
            ws.get_row_dimension_mut(&rng.range(1, 9)).set_height(33.0);
            ws.get_row_dimension_mut(&rng.range(10, 19)).set_style(rng.pick(&styles).clone());
            ws.get_column_dimension_by_number_mut(&3).set_width(21.0);
            o.feat("sheet-without-cells");
        }
    }
    if rng.chance(1, 5) {
        // a chart (drawing part, chart part, their relationships and content types)
        let si = rng.below(n as u64) as usize;
        let name = book.get_sheet(&si).unwrap().get_name().to_string();
        let q = format!("'{}'", name.replace('\'', "''"));
        let series = vec![format!("{}!$B$2:$B$6", q), format!("{}!$C$2:$C$6", q)];
        let mut from = umya_spreadsheet::structs::drawing::spreadsheet::MarkerType::default();
        let mut to = umya_spreadsheet::structs::drawing::spreadsheet::MarkerType::default();
        from.set_coordinate("H2");
        to.set_coordinate("N14");
        let mut chart = Chart::default();
        chart.new_chart(rng.pick(&[ChartType::LineChart, ChartType::BarChart, ChartType::PieChart, ChartType::AreaChart]).clone(), from, to, series.iter().map(|s| s.as_str()).collect());
        chart.set_title(format!("Chart <&> {}", uid));
        book.get_sheet_mut(&si).unwrap().add_chart(chart);
        o.feat("chart");
    }
    if rng.chance(1, 6) {
        // opaque macro payload: makes the package an .xlsm (content types, vbaProject part)
        book.set_macros_code(b"\xd0\xcf\x11\xe0fake-vba-project".to_vec());
        o.feat("macros");
    }
    book
}

pub fn corpus_files() -> Vec<std::path::PathBuf> {
    let mut v: Vec<_> = std::fs::read_dir("/repo/tests/test_files")
        .map(|d| d.filter_map(|e| e.ok()).map(|e| e.path()).filter(|p| matches!(p.extension().and_then(|x| x.to_str()), Some("xlsx") | Some("xlsm"))).collect())
        .unwrap_or_default();
    v.sort();
    v.into_iter().filter(|p| std::fs::metadata(p).map(|m| m.len() > 0).unwrap_or(false)).collect()
}

pub fn run(args: &Args) {
    std::fs::create_dir_all(&args.out).unwrap();
    let meta = std::sync::Mutex::new(std::io::BufWriter::new(std::fs::File::create(format!("{}/cases.jsonl", args.out)).unwrap()));
    let corpus = corpus_files();
    let ncorpus = corpus.len() as u64;
    let a2 = Args { cases: args.cases + ncorpus, ..Args::parse() };
    let agg = run_cases(&a2, |seed, k| {
        let mut o = Outcome::default();
        let mut rng = Rng::new(seed, k);
        let (book, origin) = if k < ncorpus {
            let p = &corpus[k as usize];
            o.feat("corpus");
            match guard(|| reader::xlsx::read(p)) {
                Ok(Ok(b)) => (b, p.file_name().unwrap().to_string_lossy().to_string()),
                other => {
                    o.inconclusive = Some(format!("corpus file {:?} not loadable: {:?}", p, other.err()));
                    return o;
                }
            }
        } else {
            match guard(|| build(&mut rng, &mut o)) {
                Ok(b) => (b, "generated".to_string()),
                Err(e) => {
                    o.div(format!("build-panicked:{}", panic_site(&e)), e);
                    return o;
                }
            }
        };
        let pre = match dump_book_guarded(&book, Sections::ALL) {
            Ok(d) => d,
            Err(e) => {
                o.inconclusive = Some(format!("pre-save dump panicked: {}", e));
                return o;
            }
        };
        let light = rng.chance(1, 2);
        o.feat(if light { "writer:light" } else { "writer:standard" });
        o.nontrivial = pre.len() > 8;
        o.hash = fnv(&format!("{:?}", pre));
        o.descr = jo(vec![("origin", js(&origin)), ("sheets", js(pre.get("wb/sheets").cloned().unwrap_or_default())), ("dump_entries", J::I(pre.len() as i64))]);
        match save(&book, light) {
            Ok(bytes) => {
                std::fs::write(format!("{}/case-{}.xlsx", args.out, k), &bytes).unwrap();
                let feats: Vec<J> = o.features.iter().map(js).collect();
                let line = jo(vec![("case", J::I(k as i64)), ("seed", J::I(seed as i64)), ("origin", js(&origin)), ("light", J::B(light)), ("features", J::A(feats)), ("dump", dump_json(&pre))]);
                writeln!(meta.lock().unwrap(), "{}", line.to_string()).unwrap();
                o.count("files", 1);
            }
            Err(e) => o.div(format!("save-failed:{}", panic_site(&e)), format!("{}: {}", origin, e)),
        }
        o
    });
    meta.lock().unwrap().flush().unwrap();
    finish(&a2, agg, vec![("corpus_files", J::I(ncorpus as i64))]);
}
