use umya_spreadsheet::*;
fn main(){
    let a: Vec<String> = std::env::args().collect();
    let book = reader::xlsx::read(std::path::Path::new(&a[1])).unwrap();
    let cell = &a[2];
    let ws = book.get_sheet(&0).unwrap();
    let st = ws.get_style(cell.as_str());
    println!("orig font: {:?}\n align {:?}", st.get_font().map(|f|f.get_name().to_string()), st.get_alignment());
    let mut buf = std::io::Cursor::new(Vec::new());
    writer::xlsx::write_writer(&book, &mut buf).unwrap();
    let b2 = reader::xlsx::read_reader(std::io::Cursor::new(buf.into_inner()), true).unwrap();
    println!("gen1 font: {:?}\n align {:?}", b2.get_sheet(&0).unwrap().get_style(cell.as_str()).get_font().map(|f|f.get_name().to_string()), b2.get_sheet(&0).unwrap().get_style(cell.as_str()).get_alignment());
}
