//! C17: coordinate / column / range / address codecs are exact inverses grid-wide.
//! Oracle: independent bijective base-26 arithmetic + structural equality.
use crate::common::*;
use umya_spreadsheet::helper::address::{join_address, split_address};
use umya_spreadsheet::helper::coordinate::*;
use umya_spreadsheet::helper::range::get_start_and_end_point;
use umya_spreadsheet::{Address, Coordinate, Range};

fn ref_alpha(mut n: u32) -> String {
    // bijective base-26 numeral of n >= 1
    let mut out = Vec::new();
    while n > 0 {
        let d = (n - 1) % 26;
        out.push((b'A' + d as u8) as char);
        n = (n - 1 - d) / 26;
    }
    out.iter().rev().collect()
}
fn ref_index(s: &str) -> u32 {
    s.bytes().fold(0u32, |acc, b| acc * 26 + (b - b'A' + 1) as u32)
}

struct Ctx {
    o: Outcome,
    seen: std::collections::BTreeSet<u64>,
}
impl Ctx {
    fn obs(&mut self, class: &str, key: &str, ok: bool, detail: impl Fn() -> String) {
        self.o.observations += 1;
        self.o.count(class, 1);
        self.seen.insert(fnv(&format!("{}|{}", class, key)));
        if !ok {
            self.o.div(format!("{}", class), detail());
        }
    }
}

pub fn sheet_name(rng: &mut Rng) -> String {
    // legal sheet-name alphabet: anything except : \ / ? * [ ] ; no leading/trailing apostrophe; 1..=31 chars
    const ALPHA: &[&str] = &[
        "a", "B", "z", "Q", "1", "0", "9", " ", " ", "'", "'", "!", "\"", "\"", "-", "_", ".", ",", "(", ")", "&", "<", ">", "$", "#", "%", "+", "=", "é",
        "ß", "日", "本", "Ω", "😀", "A1", "XFD1048576", "R1C1", "$A$1",
    ];
    loop {
        let len = match rng.below(6) {
            0 => 1,
            1 => 31,
            _ => rng.range(1, 12),
        } as usize;
        let mut s = String::new();
        while s.chars().count() < len {
            s.push_str(*rng.pick(ALPHA));
        }
        let s: String = s.chars().take(len).collect();
        if s.starts_with('\'') || s.ends_with('\'') || s.trim() != s || s.is_empty() {
            continue;
        }
        return s;
    }
}

pub fn run(args: &Args) {
    let thorough = args.tier == "thorough";
    let row_stride: u32 = if thorough { 1 } else { 61 };
    // shard list: (kind, index)
    let mut shards: Vec<(u32, u32)> = vec![(0, 0), (1, 0)];
    for s in 0..16 {
        shards.push((2, s));
    }
    for s in 0..8 {
        shards.push((3, s));
    }
    for s in 0..8 {
        shards.push((4, s));
    }
    let nshards = shards.len() as u64;
    let mut a2 = Args { cases: nshards, ..Args::parse() };
    a2.cmd = args.cmd.clone();
    let exhaustive_cols = std::sync::atomic::AtomicBool::new(false);
    let agg = run_cases(&a2, |seed, k| {
        let (kind, shard) = shards[k as usize];
        let mut cx = Ctx { o: Outcome::default(), seen: Default::default() };
        cx.o.nontrivial = true;
        match kind {
            0 => {
                // every column index
                let mut prev = String::new();
                for col in 1u32..=16384 {
                    let r = guard(|| string_from_column_index(&col));
                    let exp = ref_alpha(col);
                    match r {
                        Ok(s) => {
                            cx.obs("col.index_to_letters", &exp, s == exp, || format!("col {} -> {:?}, expected {:?}", col, s, exp));
                            let back = guard(|| column_index_from_string(&s));
                            cx.obs("col.roundtrip", &exp, back == Ok(col), || format!("col {} -> {:?} -> {:?}", col, s, back));
                            let in_order = prev.len() < s.len() || (prev.len() == s.len() && prev < s);
                            cx.obs("col.order", &exp, in_order, || format!("{:?} not after {:?}", s, prev));
                            prev = s;
                        }
                        Err(e) => cx.obs("col.index_to_letters", &exp, false, || format!("col {} panics: {}", col, e)),
                    }
                }
                exhaustive_cols.store(true, std::sync::atomic::Ordering::SeqCst);
            }
            1 => {
                // every 1..3 letter name
                let mut names = vec![];
                for a in 0..26u8 {
                    names.push(format!("{}", (b'A' + a) as char));
                }
                for a in 0..26u8 {
                    for b in 0..26u8 {
                        names.push(format!("{}{}", (b'A' + a) as char, (b'A' + b) as char));
                    }
                }
                for a in 0..26u8 {
                    for b in 0..26u8 {
                        for c in 0..26u8 {
                            names.push(format!("{}{}{}", (b'A' + a) as char, (b'A' + b) as char, (b'A' + c) as char));
                        }
                    }
                }
                for (i, n) in names.iter().enumerate() {
                    let exp = ref_index(n);
                    let got = guard(|| column_index_from_string(n));
                    cx.obs("name.letters_to_index", n, got == Ok(exp), || format!("{:?} -> {:?}, expected {}", n, got, exp));
                    cx.obs("name.enumeration_order", n, exp == i as u32 + 1, || format!("{:?} is numeral #{} but index {}", n, i + 1, exp));
                    let back = guard(|| string_from_column_index(&exp));
                    cx.obs("name.roundtrip", n, back.as_deref() == Ok(n.as_str()), || format!("{:?} -> {} -> {:?}", n, exp, back));
                    let lower = n.to_lowercase();
                    let gl = guard(|| index_from_coordinate(format!("{}7", n)));
                    cx.obs("name.in_coordinate", n, gl == Ok((Some(exp), Some(7), Some(false), Some(false))), || format!("{}7 -> {:?}", n, gl));
                    let _ = lower;
                }
            }
            2 => {
                // rows x boundary columns x locks (shard = 1/16 of the rows)
                let cols: [u32; 9] = [1, 2, 26, 27, 702, 703, 704, 16383, 16384];
                let mut rng = Rng::new(seed, k);
                let mut row = 1 + shard;
                while row <= 1_048_576 {
                    for (ci, &col) in cols.iter().enumerate() {
                        // all 4 lock combos on boundary columns for a subset of rows, one random combo otherwise
                        let combos: Vec<(bool, bool)> = if thorough || ci % 3 == (row % 3) as usize {
                            vec![(false, false), (true, false), (false, true), (true, true)]
                        } else {
                            vec![(rng.chance(1, 2), rng.chance(1, 2))]
                        };
                        for (lc, lr) in combos {
                            let exp = format!("{}{}{}{}", if lc { "$" } else { "" }, ref_alpha(col), if lr { "$" } else { "" }, row);
                            let printed = guard(|| coordinate_from_index_with_lock(&col, &row, &lc, &lr));
                            cx.obs("coord.print", &exp, printed.as_deref() == Ok(exp.as_str()), || format!("({},{},{},{}) -> {:?} expected {}", col, row, lc, lr, printed, exp));
                            let parsed = guard(|| index_from_coordinate(&exp));
                            cx.obs("coord.parse", &exp, parsed == Ok((Some(col), Some(row), Some(lc), Some(lr))), || format!("{} -> {:?}", exp, parsed));
                            let st = guard(|| {
                                let mut c = Coordinate::default();
                                c.set_coordinate(&exp);
                                (*c.get_col_num(), *c.get_row_num(), *c.get_is_lock_col(), *c.get_is_lock_row(), c.get_coordinate())
                            });
                            cx.obs("coord.struct", &exp, st == Ok((col, row, lc, lr, exp.clone())), || format!("Coordinate({}) -> {:?}", exp, st));
                            // coordinates given as text to the worksheet API (the &str -> CellCoordinates conversion); sampled
                            if (col as u64 * 31 + row as u64) % 997 == 0 {
                                let via = guard(|| {
                                    let mut book = umya_spreadsheet::new_file();
                                    let c = book.get_sheet_mut(&0).unwrap().get_cell_mut(exp.as_str());
                                    (*c.get_coordinate().get_col_num(), *c.get_coordinate().get_row_num())
                                });
                                cx.obs("coord.text-to-cell", &exp, via == Ok((col, row)), || format!("get_cell_mut({:?}) -> {:?}", exp, via));
                            }
                            // the other way a coordinate is printed: to_string()
                            let disp = guard(|| {
                                let mut c = Coordinate::default();
                                c.set_coordinate(&exp);
                                c.to_string()
                            });
                            cx.obs("coord.display", &exp, disp.as_deref() == Ok(exp.as_str()), || format!("Coordinate({}).to_string() -> {:?}", exp, disp));
                        }
                    }
                    if row % 16 == 1 + shard % 16 {
                        let col = rng.range(1, 16384);
                        let exp = format!("{}{}", ref_alpha(col), row);
                        let p = guard(|| coordinate_from_index(&col, &row));
                        cx.obs("coord.print_plain", &exp, p.as_deref() == Ok(exp.as_str()), || format!("({},{}) -> {:?}", col, row, p));
                        let q = guard(|| index_from_coordinate(&exp));
                        cx.obs("coord.parse", &exp, q == Ok((Some(col), Some(row), Some(false), Some(false))), || format!("{} -> {:?}", exp, q));
                    }
                    row += 16 * row_stride;
                }
            }
            3 => {
                // range shapes
                let mut rng = Rng::new(seed, k);
                let n = if thorough { 60_000 } else { 6_000 };
                let bcols: [u32; 8] = [1, 2, 26, 27, 702, 703, 16383, 16384];
                let brows: [u32; 8] = [1, 2, 9, 10, 99, 100, 1_048_575, 1_048_576];
                for _ in 0..n {
                    let col = |rng: &mut Rng| if rng.chance(1, 2) { *rng.pick(&bcols) } else { rng.range(1, 16384) };
                    let row = |rng: &mut Rng| if rng.chance(1, 2) { *rng.pick(&brows) } else { rng.range(1, 1_048_576) };
                    let (mut c1, mut c2, mut r1, mut r2) = (col(&mut rng), col(&mut rng), row(&mut rng), row(&mut rng));
                    if c1 > c2 {
                        std::mem::swap(&mut c1, &mut c2);
                    }
                    if r1 > r2 {
                        std::mem::swap(&mut r1, &mut r2);
                    }
                    let l: Vec<bool> = (0..4).map(|_| rng.chance(1, 3)).collect();
                    let d = |b: bool| if b { "$" } else { "" };
                    let shape = rng.below(4);
                    let (text, exp): (String, [Option<(u32, bool)>; 4]) = match shape {
                        0 => (format!("{}{}{}{}", d(l[0]), ref_alpha(c1), d(l[1]), r1), [Some((c1, l[0])), Some((r1, l[1])), None, None]),
                        1 => (
                            format!("{}{}{}{}:{}{}{}{}", d(l[0]), ref_alpha(c1), d(l[1]), r1, d(l[2]), ref_alpha(c2), d(l[3]), r2),
                            [Some((c1, l[0])), Some((r1, l[1])), Some((c2, l[2])), Some((r2, l[3]))],
                        ),
                        2 => (format!("{}{}:{}{}", d(l[1]), r1, d(l[3]), r2), [None, Some((r1, l[1])), None, Some((r2, l[3]))]),
                        _ => (format!("{}{}:{}{}", d(l[0]), ref_alpha(c1), d(l[2]), ref_alpha(c2)), [Some((c1, l[0])), None, Some((c2, l[2])), None]),
                    };
                    let shape_name = ["cell", "cell:cell", "row:row", "col:col"][shape as usize];
                    let got = guard(|| {
                        let mut r = Range::default();
                        r.set_range(text.clone());
                        let corners = [
                            r.get_coordinate_start_col().map(|x| (*x.get_num(), *x.get_is_lock())),
                            r.get_coordinate_start_row().map(|x| (*x.get_num(), *x.get_is_lock())),
                            r.get_coordinate_end_col().map(|x| (*x.get_num(), *x.get_is_lock())),
                            r.get_coordinate_end_row().map(|x| (*x.get_num(), *x.get_is_lock())),
                        ];
                        (corners, r.get_range())
                    });
                    let ok = match &got {
                        Ok((c, p)) => *c == exp && *p == text,
                        Err(_) => false,
                    };
                    cx.obs(&format!("range.struct.{}", shape_name), &text, ok, || format!("Range({}) -> {:?} expected corners {:?}", text, got, exp));
                    if shape <= 1 {
                        let h = guard(|| get_start_and_end_point(&text));
                        let e = if shape == 0 { (r1, r1, c1, c1) } else { (r1, r2, c1, c2) };
                        cx.obs(&format!("range.helper.{}", shape_name), &text, h == Ok(e), || format!("get_start_and_end_point({}) -> {:?} expected {:?}", text, h, e));
                    } else {
                        cx.o.feat("helper-whole-rowcol");
                        let h = guard(|| get_start_and_end_point(&text));
                        let ok = match (&h, shape) {
                            (Ok((rs, re, _, _)), 2) => (*rs, *re) == (r1, r2),
                            (Ok((_, _, cs, ce)), _) => (*cs, *ce) == (c1, c2),
                            _ => false,
                        };
                        cx.obs(&format!("range.helper.{}", shape_name), &text, ok, || format!("get_start_and_end_point({}) -> {:?}", text, h));
                    }
                }
            }
            _ => {
                // sheet-qualified addresses
                let mut rng = Rng::new(seed, k);
                let n = if thorough { 40_000 } else { 4_000 };
                for _ in 0..n {
                    let name = sheet_name(&mut rng);
                    let c1 = rng.range(1, 16384);
                    let r1 = rng.range(1, 1_048_576);
                    let rng_txt = if rng.chance(1, 2) { format!("{}{}", ref_alpha(c1), r1) } else { format!("${}${}:{}{}", ref_alpha(c1), r1, ref_alpha(c1.max(2)), r1.max(3)) };
                    if name.starts_with('"') || name.ends_with('"') {
                        cx.o.feat("name-edge-dquote");
                    }
                    let cls_suffix = if name.starts_with('"') || name.ends_with('"') { ".edge-dquote" } else { "" };
                    // helper level: split(join(name, range)) == (name, range)
                    let h = guard(|| {
                        let j = join_address(&name, &rng_txt);
                        let (s, r) = split_address(&j);
                        (s.to_string(), r.to_string())
                    });
                    cx.obs(&format!("address.helper{}", cls_suffix), &format!("{}!{}", name, rng_txt), h == Ok((name.clone(), rng_txt.clone())), || format!("split(join({:?},{:?})) = {:?}", name, rng_txt, h));
                    // struct level: parse(print(a)) == a
                    let st = guard(|| {
                        let mut a = Address::default();
                        a.set_sheet_name(name.clone());
                        let mut r = Range::default();
                        r.set_range(rng_txt.clone());
                        a.set_range(r);
                        let printed = a.get_address();
                        let mut b = Address::default();
                        b.set_address(printed.clone());
                        (b.get_sheet_name().to_string(), b.get_range().get_range(), b.get_address() == printed, printed)
                    });
                    let ok = match &st {
                        Ok((s, r, same, _)) => *s == name && *r == rng_txt && *same,
                        Err(_) => false,
                    };
                    cx.obs(&format!("address.struct{}", cls_suffix), &format!("{}!{}", name, rng_txt), ok, || format!("Address({:?},{:?}) print/parse -> {:?}", name, rng_txt, st));
                    // an object that held another value before shows only the new one (Range and Address are re-used by callers)
                    let before = *rng.pick(&["$B$2:$C$3", "B2", "$A:$C", "3:$7", "$XFD$1048576", "A$1:$B2"]);
                    let re = guard(|| {
                        let mut r = Range::default();
                        r.set_range(before);
                        r.set_range(rng_txt.clone());
                        let mut a = Address::default();
                        a.set_address(format!("Other!{}", before));
                        a.set_address(format!("S!{}", rng_txt));
                        (r.get_range(), a.get_address())
                    });
                    cx.obs("range.struct.reused-object", &format!("{} then {}", before, rng_txt), re == Ok((rng_txt.clone(), format!("S!{}", rng_txt))), || format!("set_range({:?}) then set_range({:?}) -> {:?}", before, rng_txt, re));
                }
            }
        }
        cx.o.hash = k;
        cx.o.count("distinct_inputs", cx.seen.len() as u64);
        cx.o.descr = jo(vec![("shard_kind", J::I(kind as i64)), ("shard", J::I(shard as i64))]);
        cx.o
    });
    let ex = exhaustive_cols.load(std::sync::atomic::Ordering::SeqCst);
    finish(&a2, agg, vec![("exhaustive_columns_and_names", J::B(ex)), ("row_stride", J::I(row_stride as i64))]);
}
