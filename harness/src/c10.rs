//! C10: the cell store stays coherent under any history of operations.
//! Invariant monitor evaluated after every operation purely through public getters, plus an
//! exactly-once emission check on the saved sheet XML (scanned without library code).
use crate::common::*;
use std::collections::{BTreeMap, BTreeSet};
use umya_spreadsheet::*;

fn a1(c: u32, r: u32) -> String {
    helper::coordinate::coordinate_from_index(&c, &r)
}
fn check(ws:&Worksheet, rng:&mut Rng)->Result<usize,String>{
    let map=ws.get_collection_to_hashmap();
    let keys:BTreeSet<(u32,u32)>=map.keys().copied().collect(); // (row,col)
    for (&(r,c),cell) in map.iter(){ let cc=(*cell.get_coordinate().get_row_num(),*cell.get_coordinate().get_col_num()); if cc!=(r,c){ return Err(format!("key ({},{}) holds cell claiming ({},{})",r,c,cc.0,cc.1)); } if r==0||c==0||r>1048576||c>16384 { return Err(format!("out of grid ({},{})",r,c)); } }
    for &(r,c) in &keys { match ws.get_cell((c,r)){ Some(cell)=> if (*cell.get_coordinate().get_row_num(),*cell.get_coordinate().get_col_num())!=(r,c){ return Err("get_cell returns other coordinate".into()); }, None=>return Err(format!("get_cell misses ({},{})",r,c)) } }
    for _ in 0..10 { let (c,r)=(rng.range(1,20),rng.range(1,24)); if ws.get_cell((c,r)).is_some()!=keys.contains(&(r,c)) { return Err(format!("get_cell existence mismatch at ({},{})",r,c)); } }
    if ws.get_cell_collection().len()!=keys.len(){ return Err("unordered listing length".into()); }
    let sorted:Vec<(u32,u32)>=ws.get_cell_collection_sorted().iter().map(|c|(*c.get_coordinate().get_row_num(),*c.get_coordinate().get_col_num())).collect();
    if sorted!=keys.iter().copied().collect::<Vec<_>>(){ return Err(format!("sorted listing != sorted key set ({} vs {})",sorted.len(),keys.len())); }
    let rows:BTreeSet<u32>=keys.iter().map(|k|k.0).collect(); let cols:BTreeSet<u32>=keys.iter().map(|k|k.1).collect();
    for &r in rows.iter().chain([rng.range(1,30)].iter()){ let got:Vec<u32>=ws.get_collection_by_row(&r).iter().map(|c|*c.get_coordinate().get_col_num()).collect(); let exp:Vec<u32>=keys.iter().filter(|k|k.0==r).map(|k|k.1).collect(); if got!=exp { return Err(format!("by_row({}) {:?} != {:?}",r,got,exp)); } if ws.get_collection_by_row_to_hashmap(&r).len()!=exp.len(){ return Err("by_row_to_hashmap".into()); } }
    for &c in cols.iter().chain([rng.range(1,30)].iter()){ let got:Vec<u32>=ws.get_collection_by_column(&c).iter().map(|x|*x.get_coordinate().get_row_num()).collect(); let mut exp:Vec<u32>=keys.iter().filter(|k|k.1==c).map(|k|k.0).collect(); exp.sort(); if got!=exp { return Err(format!("by_column({}) {:?} != {:?}",c,got,exp)); } if ws.get_collection_by_column_to_hashmap(&c).len()!=exp.len(){ return Err("by_col_to_hashmap".into()); } }
    let (hc,hr)=ws.get_highest_column_and_row(); let ec=cols.iter().max().copied().unwrap_or(0); let er=rows.iter().max().copied().unwrap_or(0);
    if (hc,hr)!=(ec,er) || ws.get_highest_column()!=ec || ws.get_highest_row()!=er { return Err(format!("highest ({},{}) != ({},{})",hc,hr,ec,er)); }
    let dim=ws.calculate_worksheet_dimension(); let ed= if er==0 {"A1".to_string()} else {format!("A1:{}",a1(ec,er))}; if dim!=ed { return Err(format!("dimension {} != {}",dim,ed)); }
    for _ in 0..3 { let c1=rng.range(1,15); let r1=rng.range(1,18); let c2=rng.range(c1,c1+5); let r2=rng.range(r1,r1+5); let got=ws.get_cell_value_by_range(&format!("{}:{}",a1(c1,r1),a1(c2,r2)));
        if got.len() as u32!=(c2-c1+1)*(r2-r1+1){ return Err("range listing length".into()); }
        let mut i=0; for r in r1..=r2 { for c in c1..=c2 { let exp=ws.get_cell((c,r)).map(|x|x.get_value().to_string()).unwrap_or_default(); if got[i].get_value()!=exp { return Err(format!("range listing value at {}",a1(c,r))); } i+=1; } } }
    Ok(keys.len()) }
fn emitted(ws_index:usize, book:&Spreadsheet)->Result<(),String>{
    let mut cur=std::io::Cursor::new(Vec::new()); writer::xlsx::write_writer_light(book,&mut cur).map_err(|e|format!("{:?}",e))?; let buf=cur.into_inner();
    let mut z=zip::ZipArchive::new(std::io::Cursor::new(buf)).unwrap(); let mut s=String::new(); use std::io::Read; z.by_name(&format!("xl/worksheets/sheet{}.xml",ws_index+1)).unwrap().read_to_string(&mut s).unwrap();
    let ws=book.get_sheet(&ws_index).unwrap(); let mut seen:BTreeMap<String,u32>=BTreeMap::new();
    for part in s.split("<c r=\"").skip(1){ let r=&part[..part.find('"').unwrap()]; *seen.entry(r.to_string()).or_insert(0)+=1; }
    for c in ws.get_cell_collection(){ if c.get_value()!="" || c.is_formula(){ let k=c.get_coordinate().get_coordinate(); match seen.get(&k){ Some(1)=>{}, Some(n)=>return Err(format!("cell {} emitted {} times",k,n)), None=>return Err(format!("cell {} not emitted",k)) } } }
    Ok(()) }

pub fn run(args: &Args) {
    let agg = run_cases(args, |seed, case| {
        let mut o = Outcome::default();
        let mut rng = Rng::new(seed, case);
        let mut book = new_file();
        let mut uid = 0u32;
        let mut hist: Vec<String> = vec![];
        let nops = rng.range(1, 60);
        // dense or sparse working area
        let (w, h) = if rng.chance(1, 2) { (6, 7) } else { (14, 16) };
        'h: for _ in 0..nops {
            let k = rng.below(15);
            let (c, r) = (rng.range(1, w), rng.range(1, h));
            let n = rng.range(1, 3);
            uid += 1;
            let mut st = Style::default();
            st.get_font_mut().set_bold(true);
            st.get_font_mut().set_size((8 + uid % 9) as f64);
            let desc = match k {
                0 | 1 => format!("get_cell_mut({},{}).set", c, r),
                2 => format!("set_cell({},{})", c, r),
                3 => format!("remove_cell({},{})", c, r),
                4 => format!("set_style({},{})", c, r),
                5 => format!("set_style_by_range({},{},+{})", c, r, n),
                6 => format!("insert_new_row({},{})", r, n),
                7 => format!("remove_row({},{})", r, n),
                8 => format!("insert_new_column_by_index({},{})", c, n),
                9 => format!("remove_column_by_index({},{})", c, n),
                10 => format!("move_range({},{})", c, r),
                11 => format!("copy_range({},{})", c, r),
                12 => "cleanup".into(),
                13 => format!("copy_row_or_col_styling({},{})", c, r),
                _ => format!("get_cell_mut({},{}) only", c, r),
            };
            hist.push(desc.clone());
            let opname = desc.split('(').next().unwrap().to_string();
            o.count(&format!("op.{}", opname), 1);
            let res = guard(|| {
                let ws = book.get_sheet_mut(&0).unwrap();
                match k {
                    0 | 1 => {
                        ws.get_cell_mut((c, r)).set_value_string(format!("v{}", uid));
                    }
                    2 => {
                        let mut cell = Cell::default();
                        cell.get_coordinate_mut().set_col_num(c).set_row_num(r);
                        if rng.below(3) > 0 {
                            cell.set_value_string(format!("w{}", uid));
                        }
                        ws.set_cell(cell);
                    }
                    3 => {
                        ws.remove_cell((c, r));
                    }
                    4 => {
                        ws.set_style((c, r), st.clone());
                    }
                    5 => {
                        // rectangular ranges only: the whole-row / whole-column forms always panic before touching the store
                        let rg = format!("{}:{}", a1(c, r), a1(c + n, r + n));
                        ws.set_style_by_range(&rg, st.clone());
                    }
                    6 => ws.insert_new_row(&r, &n),
                    7 => ws.remove_row(&r, &n),
                    8 => ws.insert_new_column_by_index(&c, &n),
                    9 => ws.remove_column_by_index(&c, &n),
                    10 | 11 => {
                        let rg = format!("{}:{}", a1(c, r), a1(c + rng.range(0, 3), r + rng.range(0, 3)));
                        let dr = rng.range(0, 6) as i32 - 3;
                        let dc = rng.range(0, 6) as i32 - 3;
                        if (c as i32 + dc) >= 1 && (r as i32 + dr) >= 1 {
                            if k == 10 {
                                ws.move_range(&rg, &dr, &dc);
                            } else {
                                ws.copy_range(&rg, &dr, &dc);
                            }
                        }
                    }
                    12 => ws.cleanup(),
                    13 => {
                        if rng.below(2) == 0 {
                            ws.copy_row_styling(&r, &rng.range(1, h), None, None);
                        } else {
                            ws.copy_col_styling(&c, &rng.range(1, w), None, None);
                        }
                    }
                    _ => {
                        ws.get_cell_mut((c, r));
                    }
                }
            });
            if let Err(e) = res {
                o.div(format!("panic:{}:{}", opname, panic_site(&e)), format!("{}; history {:?}", e, hist));
                break 'h;
            }
            match guard(|| check(book.get_sheet(&0).unwrap(), &mut rng)) {
                Ok(Ok(n)) => {
                    o.observations += 1;
                    o.count("cells-observed", n as u64);
                }
                Ok(Err(e)) => {
                    let class: String = e.split(|ch: char| ch.is_ascii_digit() || ch == '(').next().unwrap().trim().to_string();
                    o.div(format!("incoherent:{}:after {}", class, opname), format!("{}; history {:?}", e, hist));
                    break 'h;
                }
                Err(e) => {
                    o.div(format!("observer-panic:{}:{}", opname, panic_site(&e)), format!("{}; history {:?}", e, hist));
                    break 'h;
                }
            }
            if rng.below(4) == 0 {
                o.count("emission-checks", 1);
                match guard(|| emitted(0, &book)) {
                    Ok(Ok(())) => {}
                    Ok(Err(e)) => {
                        let class = e.split(' ').skip(2).collect::<Vec<_>>().join(" ");
                        o.div(format!("emission:{}:after {}", class, opname), format!("{}; history {:?}", e, hist));
                        break 'h;
                    }
                    Err(e) => {
                        o.div(format!("save-panic:{}", panic_site(&e)), format!("{}; history {:?}", e, hist));
                        break 'h;
                    }
                }
            }
        }
        o.count("ops", hist.len() as u64);
        o.nontrivial = hist.len() > 1;
        o.hash = fnv(&hist.join("|"));
        o.descr = J::A(hist.iter().take(12).map(js).collect());
        o
    });
    finish(args, agg, vec![]);
}
