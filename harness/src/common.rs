//! Shared plumbing of the monitoring harness: PRNG, JSON writer, panic capture,
//! sharded case runner, divergence aggregation.
#![allow(dead_code)]
use std::cell::RefCell;
use std::collections::{BTreeMap, BTreeSet};
use std::panic::{catch_unwind, AssertUnwindSafe};
use std::sync::Mutex;

// ---------------------------------------------------------------- PRNG
#[derive(Clone)]
pub struct Rng(pub u64);
impl Rng {
    pub fn new(seed: u64, case: u64) -> Rng {
        let mut r = Rng(seed.wrapping_mul(0x9E37_79B9_7F4A_7C15) ^ case.wrapping_mul(0xD1B5_4A32_D192_ED03));
        r.next();
        r.next();
        r
    }
    pub fn next(&mut self) -> u64 {
        self.0 = self.0.wrapping_add(0x9e37_79b9_7f4a_7c15);
        let mut z = self.0;
        z = (z ^ (z >> 30)).wrapping_mul(0xbf58_476d_1ce4_e5b9);
        z = (z ^ (z >> 27)).wrapping_mul(0x94d0_49bb_1331_11eb);
        z ^ (z >> 31)
    }
    pub fn below(&mut self, n: u64) -> u64 {
        if n == 0 {
            0
        } else {
            self.next() % n
        }
    }
    pub fn range(&mut self, a: u32, b: u32) -> u32 {
        a + self.below((b - a + 1) as u64) as u32
    }
    pub fn irange(&mut self, a: i64, b: i64) -> i64 {
        a + self.below((b - a + 1) as u64) as i64
    }
    pub fn chance(&mut self, num: u64, den: u64) -> bool {
        self.below(den) < num
    }
    pub fn pick<'a, T>(&mut self, v: &'a [T]) -> &'a T {
        &v[self.below(v.len() as u64) as usize]
    }
    pub fn f01(&mut self) -> f64 {
        (self.next() >> 11) as f64 / (1u64 << 53) as f64
    }
}

// ---------------------------------------------------------------- JSON
#[derive(Clone, Debug, PartialEq, Default)]
pub enum J {
    #[default]
    Null,
    B(bool),
    I(i64),
    F(f64),
    S(String),
    A(Vec<J>),
    O(Vec<(String, J)>),
}
pub fn js<S: AsRef<str>>(s: S) -> J {
    J::S(s.as_ref().to_string())
}
pub fn jo(items: Vec<(&str, J)>) -> J {
    J::O(items.into_iter().map(|(k, v)| (k.to_string(), v)).collect())
}
pub fn jmap(m: &BTreeMap<String, u64>) -> J {
    J::O(m.iter().map(|(k, v)| (k.clone(), J::I(*v as i64))).collect())
}
pub fn jstrmap(m: &BTreeMap<String, String>) -> J {
    J::O(m.iter().map(|(k, v)| (k.clone(), J::S(v.clone()))).collect())
}
impl J {
    pub fn write(&self, o: &mut String) {
        match self {
            J::Null => o.push_str("null"),
            J::B(b) => o.push_str(if *b { "true" } else { "false" }),
            J::I(i) => o.push_str(&i.to_string()),
            J::F(f) => {
                if f.is_finite() {
                    o.push_str(&format!("{:?}", f))
                } else {
                    o.push_str("null")
                }
            }
            J::S(s) => esc(s, o),
            J::A(a) => {
                o.push('[');
                for (i, x) in a.iter().enumerate() {
                    if i > 0 {
                        o.push(',');
                    }
                    x.write(o);
                }
                o.push(']');
            }
            J::O(a) => {
                o.push('{');
                for (i, (k, x)) in a.iter().enumerate() {
                    if i > 0 {
                        o.push(',');
                    }
                    esc(k, o);
                    o.push(':');
                    x.write(o);
                }
                o.push('}');
            }
        }
    }
    pub fn to_string(&self) -> String {
        let mut o = String::new();
        self.write(&mut o);
        o
    }
}
fn esc(s: &str, o: &mut String) {
    o.push('"');
    for c in s.chars() {
        match c {
            '"' => o.push_str("\\\""),
            '\\' => o.push_str("\\\\"),
            '\n' => o.push_str("\\n"),
            '\r' => o.push_str("\\r"),
            '\t' => o.push_str("\\t"),
            c if (c as u32) < 0x20 || c == '\u{7f}' || c == '\u{2028}' || c == '\u{2029}' || c == '\u{fffe}' || c == '\u{ffff}' => {
                o.push_str(&format!("\\u{:04x}", c as u32))
            }
            c => o.push(c),
        }
    }
    o.push('"');
}

// ---------------------------------------------------------------- panic capture
thread_local! { static LAST_PANIC: RefCell<Option<String>> = RefCell::new(None); }

pub fn install_panic_hook() {
    if std::env::var("UVH_LOUD").is_ok() {
        return;
    }
    std::panic::set_hook(Box::new(|info| {
        let loc = info.location().map(|l| format!("{}:{}", l.file(), l.line())).unwrap_or_default();
        let msg = if let Some(s) = info.payload().downcast_ref::<&str>() {
            s.to_string()
        } else if let Some(s) = info.payload().downcast_ref::<String>() {
            s.clone()
        } else {
            String::new()
        };
        LAST_PANIC.with(|p| *p.borrow_mut() = Some(format!("{} @ {}", msg, loc)));
    }));
}

/// Run `f`; a panic becomes `Err("<message> @ <file:line>")`.
pub fn guard<T>(f: impl FnOnce() -> T) -> Result<T, String> {
    LAST_PANIC.with(|p| *p.borrow_mut() = None);
    match catch_unwind(AssertUnwindSafe(f)) {
        Ok(v) => Ok(v),
        Err(_) => Err(LAST_PANIC.with(|p| p.borrow_mut().take()).unwrap_or_else(|| "panic".into())),
    }
}
/// Location part of a guard() error, with the line number stripped of volatile detail:
/// "src/helper/coordinate.rs:129" (path made relative to the repository).
pub fn panic_site(e: &str) -> String {
    let loc = e.rsplit(" @ ").next().unwrap_or("");
    let loc = loc.strip_prefix("/repo/").unwrap_or(loc);
    loc.to_string()
}

// ---------------------------------------------------------------- case outcome + aggregation
#[derive(Default, Clone)]
pub struct Div {
    pub sig: String,
    pub detail: String,
}
#[derive(Default)]
pub struct Outcome {
    /// feature tags of the generated case (drive known-finding attribution and coverage)
    pub features: BTreeSet<String>,
    /// free-form counters merged into the evidence
    pub counters: BTreeMap<String, u64>,
    /// content hash of the case; used for distinct counting
    pub hash: u64,
    /// did the case exercise the non-trivial part of the property
    pub nontrivial: bool,
    pub divs: Vec<Div>,
    /// a printable rendering of the case (kept for samples / replays)
    pub descr: J,
    pub inconclusive: Option<String>,
    /// number of individual oracle comparisons performed
    pub observations: u64,
}
impl Outcome {
    pub fn feat(&mut self, f: &str) {
        self.features.insert(f.to_string());
    }
    pub fn count(&mut self, k: &str, n: u64) {
        *self.counters.entry(k.to_string()).or_insert(0) += n;
    }
    pub fn div(&mut self, sig: impl Into<String>, detail: impl Into<String>) {
        self.divs.push(Div { sig: sig.into(), detail: detail.into() });
    }
}

#[derive(Default)]
pub struct Agg {
    pub evaluations: u64,
    pub observations: u64,
    pub hashes: BTreeSet<u64>,
    pub counters: BTreeMap<String, u64>,
    pub features: BTreeMap<String, u64>,
    pub samples: Vec<J>,
    pub div_groups: BTreeMap<String, (u64, Vec<J>)>, // key = sig + features
    pub inconclusive: Vec<J>,
}

pub struct Args {
    pub cmd: String,
    pub seed: u64,
    pub cases: u64,
    pub only_case: Option<u64>,
    pub out: String,
    pub threads: usize,
    pub tier: String,
    pub extra: BTreeMap<String, String>,
}
impl Args {
    pub fn parse() -> Args {
        let a: Vec<String> = std::env::args().collect();
        let mut r = Args {
            cmd: a.get(1).cloned().unwrap_or_default(),
            seed: 1,
            cases: 100,
            only_case: None,
            out: ".".into(),
            threads: 16,
            tier: "quick".into(),
            extra: BTreeMap::new(),
        };
        let mut i = 2;
        while i < a.len() {
            let k = a[i].trim_start_matches("--").to_string();
            let v = a.get(i + 1).cloned().unwrap_or_default();
            match k.as_str() {
                "seed" => r.seed = v.parse().unwrap(),
                "cases" => r.cases = v.parse().unwrap(),
                "case" => r.only_case = Some(v.parse().unwrap()),
                "out" => r.out = v,
                "threads" => r.threads = v.parse().unwrap(),
                "tier" => r.tier = v,
                _ => {
                    r.extra.insert(k, v);
                }
            }
            i += 2;
        }
        r
    }
    pub fn get(&self, k: &str) -> Option<&str> {
        self.extra.get(k).map(|s| s.as_str())
    }
    pub fn get_u64(&self, k: &str, d: u64) -> u64 {
        self.get(k).and_then(|v| v.parse().ok()).unwrap_or(d)
    }
}

/// Run `cases` cases of `f` sharded over threads; every case runs under `guard`, so a panic that
/// escapes the case body itself (i.e. a harness bug or an unguarded library call) is recorded as
/// inconclusive, never as a violation.
pub fn run_cases(args: &Args, f: impl Fn(u64, u64) -> Outcome + Sync) -> Agg {
    let agg = Mutex::new(Agg::default());
    let next = std::sync::atomic::AtomicU64::new(0);
    let (lo, hi) = match args.only_case {
        Some(k) => (k, k + 1),
        None => (0, args.cases),
    };
    let nthreads = if args.only_case.is_some() { 1 } else { args.threads.max(1) };
    // progress log for the driver's watchdog: cases that START but never END are the suspects of a hang / abort
    let progress = std::env::var("UVH_PROGRESS").ok().and_then(|p| std::fs::OpenOptions::new().create(true).append(true).open(p).ok()).map(Mutex::new);
    let note = |what: &str, k: u64| {
        if let Some(p) = &progress {
            use std::io::Write;
            let mut g = p.lock().unwrap();
            let _ = writeln!(g, "{} {}", what, k);
            let _ = g.flush();
        }
    };
    std::thread::scope(|s| {
        for _ in 0..nthreads {
            s.spawn(|| loop {
                let k = lo + next.fetch_add(1, std::sync::atomic::Ordering::SeqCst);
                if k >= hi {
                    break;
                }
                note("START", k);
                let r = guard(|| f(args.seed, k));
                note("END", k);
                let mut a = agg.lock().unwrap();
                a.evaluations += 1;
                match r {
                    Err(e) => a.inconclusive.push(jo(vec![("case", J::I(k as i64)), ("why", js(format!("harness panic: {}", e)))])),
                    Ok(o) => merge(&mut a, args, k, o),
                }
            });
        }
    });
    agg.into_inner().unwrap()
}

pub fn merge(a: &mut Agg, args: &Args, k: u64, o: Outcome) {
    a.observations += o.observations;
    if o.nontrivial {
        a.hashes.insert(o.hash);
    }
    for (kk, v) in &o.counters {
        *a.counters.entry(kk.clone()).or_insert(0) += v;
    }
    for f in &o.features {
        *a.features.entry(f.clone()).or_insert(0) += 1;
    }
    if let Some(w) = &o.inconclusive {
        a.inconclusive.push(jo(vec![("case", J::I(k as i64)), ("why", js(w))]));
    }
    if a.samples.len() < 3 && o.nontrivial {
        a.samples.push(jo(vec![("case", J::I(k as i64)), ("descr", o.descr.clone())]));
    }
    let feats: Vec<String> = o.features.iter().cloned().collect();
    for d in &o.divs {
        let key = format!("{} || {}", d.sig, feats.join(","));
        let e = a.div_groups.entry(key).or_insert((0, vec![]));
        e.0 += 1;
        if e.1.len() < 3 {
            e.1.push(jo(vec![
                ("cmd", js(&args.cmd)),
                ("seed", J::I(args.seed as i64)),
                ("case", J::I(k as i64)),
                ("sig", js(&d.sig)),
                ("features", J::A(feats.iter().map(js).collect())),
                ("detail", js(&d.detail)),
                ("descr", o.descr.clone()),
            ]));
        }
    }
}

pub fn finish(args: &Args, a: Agg, extra: Vec<(&str, J)>) {
    let mut groups = vec![];
    for (_k, (n, ex)) in &a.div_groups {
        groups.push(jo(vec![("count", J::I(*n as i64)), ("examples", J::A(ex.clone()))]));
    }
    let mut items = vec![
        ("cmd", js(&args.cmd)),
        ("seed", J::I(args.seed as i64)),
        ("tier", js(&args.tier)),
        ("evaluations", J::I(a.evaluations as i64)),
        ("observations", J::I(a.observations as i64)),
        ("distinct_nontrivial", J::I(a.hashes.len() as i64)),
        ("counters", jmap(&a.counters)),
        ("features", jmap(&a.features)),
        ("samples", J::A(a.samples.clone())),
        ("divergences", J::A(groups)),
        ("inconclusive", J::A(a.inconclusive.iter().take(20).cloned().collect())),
        ("inconclusive_count", J::I(a.inconclusive.len() as i64)),
    ];
    items.extend(extra);
    let path = format!("{}/result.json", args.out);
    std::fs::create_dir_all(&args.out).ok();
    std::fs::write(&path, jo(items).to_string()).expect("write result.json");
    if args.only_case.is_some() {
        for (_k, (_n, ex)) in &a.div_groups {
            for e in ex {
                println!("{}", e.to_string());
            }
        }
    }
}

pub fn fnv(s: &str) -> u64 {
    let mut h: u64 = 0xcbf29ce484222325;
    for b in s.bytes() {
        h ^= b as u64;
        h = h.wrapping_mul(0x100000001b3);
    }
    h
}
