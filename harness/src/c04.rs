//! C04: re-saving is stable: gen1 == gen2 == gen3, orig ~ gen1, a single-cell edit changes nothing
//! else, two consecutive saves of one unchanged workbook are identical.
use crate::common::*;
use crate::dump::*;
use std::collections::BTreeMap;
use umya_spreadsheet::*;

fn report(o: &mut Outcome, what: &str, a: &Dump, b: &Dump, ignore: &dyn Fn(&str) -> bool) {
    let mut per: BTreeMap<String, u32> = BTreeMap::new();
    o.observations += a.len() as u64;
    for di in diff(a, b) {
        if ignore(&di.key) {
            continue;
        }
        let sig = format!("{}:{}{}", what, di.class, if di.b.is_none() { "[lost]" } else if di.a.is_none() { "[appeared]" } else { "" });
        let n = per.entry(sig.clone()).or_insert(0);
        *n += 1;
        if *n <= 2 {
            o.div(sig, format!("{}: {}", di.key, window(&di.a, &di.b)));
        }
    }
}

pub fn run(args: &Args) {
    let mut corpus = crate::c02::corpus_files();
    let nreal = corpus.len() as u64;
    // files written by the grammar-based generator (gen/xlsxgen.py): shared formulas, inline strings, tables, ...
    if let Some(list) = args.get("list") {
        corpus.extend(std::fs::read_to_string(list).unwrap_or_default().lines().filter(|l| !l.is_empty()).map(std::path::PathBuf::from));
    }
    let ncorpus = corpus.len() as u64;
    let a2 = Args { cases: args.cases + ncorpus, ..Args::parse() };
    let agg = run_cases(&a2, |seed, k| {
        let mut o = Outcome::default();
        let mut rng = Rng::new(seed, k);
        let (book, origin, is_corpus) = if k < ncorpus {
            let p = &corpus[k as usize];
            o.feat(if k < nreal { "corpus" } else { "grammar-generated-file" });
            match guard(|| reader::xlsx::read(p)) {
                Ok(Ok(b)) => (b, if k < nreal { p.file_name().unwrap().to_string_lossy().to_string() } else { "grammar-generated".to_string() }, k < nreal),
                other => {
                    o.inconclusive = Some(format!("corpus file {:?} not loadable: {:?}", p, other.err()));
                    return o;
                }
            }
        } else {
            match guard(|| crate::c02::build(&mut rng, &mut o)) {
                Ok(b) => (b, "generated".to_string(), false),
                Err(e) => {
                    o.div(format!("build-panicked:{}", panic_site(&e)), e);
                    return o;
                }
            }
        };
        if let Ok(spec) = std::env::var("UVH_DEBUG_CELL") {
            // "sheet:A1" -> what the workbook holds there before any save
            let (si, a1) = spec.split_once(':').unwrap();
            let ws = book.get_sheet(&si.parse::<usize>().unwrap()).unwrap();
            let c = ws.get_cell(a1);
            let (col, row) = c.map(|c| (*c.get_coordinate().get_col_num(), *c.get_coordinate().get_row_num())).unwrap_or((0, 0));
            eprintln!("DEBUG {} cell={:?} value={:?} style_default={:?} coldim={:?} rowdim={:?} merges={:?} tables={}", spec, c.is_some(), c.map(|c| c.get_value().to_string()), c.map(|c| c.get_style() == &Style::default()),
                ws.get_column_dimension_by_number(&col).map(|d| d.get_style() != &Style::default()), ws.get_row_dimension(&row).map(|d| d.get_style() != &Style::default()), ws.get_merge_cells().iter().map(|m| m.get_range()).collect::<Vec<_>>(), ws.get_tables().len());
            let bytes = save(&book, false).unwrap();
            let xml = crate::zipx::read_part(&bytes, &format!("xl/worksheets/sheet{}.xml", si.parse::<usize>().unwrap() + 1)).unwrap();
            let i = xml.find(&format!("<c r=\"{}\"", a1));
            eprintln!("DEBUG in file: {:?}; hyperlink={:?} comment={:?}", i.map(|i| xml[i..(i + 120).min(xml.len())].to_string()), c.and_then(|c| c.get_hyperlink().map(|h| h.get_url().to_string())), ws.get_comments().iter().any(|cm| cm.get_coordinate().get_coordinate() == a1));
        }
        let at = |sig: &str| if is_corpus { format!("{}@{}", sig, origin) } else { sig.to_string() };
        let d0 = match dump_book_guarded(&book, Sections::ALL) {
            Ok(d) => d,
            Err(e) => {
                o.inconclusive = Some(format!("dump of the original panicked: {}", e));
                return o;
            }
        };
        o.nontrivial = d0.len() > 8;
        o.hash = fnv(&format!("{:?}", d0));
        o.descr = jo(vec![("origin", js(&origin)), ("dump_entries", J::I(d0.len() as i64))]);
        // two consecutive saves of the same unchanged object
        let s1 = save(&book, false);
        let s2 = save(&book, false);
        match (&s1, &s2) {
            (Ok(a), Ok(b)) => {
                o.count("double-saves", 1);
                if a == b {
                    o.count("double-saves.byte-identical", 1);
                } else {
                    // same parts and same content: the part lists must agree and both files must load to the same dump
                    // (bytes may differ in the order of order-insensitive tables, e.g. comment authors)
                    match (crate::zipx::list_parts(a), crate::zipx::list_parts(b)) {
                        (Ok(mut na), Ok(mut nb)) => {
                            na.sort();
                            nb.sort();
                            if na != nb {
                                o.div(at("double-save:part-list"), format!("{:?} vs {:?}", na, nb));
                            }
                        }
                        _ => o.inconclusive = Some("cannot unzip own output".into()),
                    }
                    let da = load(a).and_then(|x| dump_book_guarded(&x, Sections::ALL));
                    let db = load(b).and_then(|x| dump_book_guarded(&x, Sections::ALL));
                    match (da, db) {
                        (Ok(da), Ok(db)) => report(&mut o, "double-save", &da, &db, &|_| false),
                        (Err(e), _) | (_, Err(e)) => o.div(at(&format!("reload-failed:{}", panic_site(&e))), e),
                    }
                }
            }
            (Err(e), _) | (_, Err(e)) => {
                o.div(at(&format!("save-failed:{}", panic_site(e))), format!("{}: {}", origin, e));
                return o;
            }
        }
        // generations
        let explicit0 = explicit_font_objects(&book);
        let mut explicit1 = Default::default();
        let mut dumps = vec![d0];
        let mut cur_bytes = s1.unwrap();
        let mut gen1_book = None;
        for g in 1..=3 {
            let b = match load(&cur_bytes) {
                Ok(b) => b,
                Err(e) => {
                    o.div(at(&format!("reload-failed:{}", panic_site(&e))), format!("{} generation {}: {}", origin, g, e));
                    return o;
                }
            };
            match dump_book_guarded(&b, Sections::ALL) {
                Ok(d) => dumps.push(d),
                Err(e) => {
                    o.div(at(&format!("dump-panicked:{}", panic_site(&e))), e);
                    return o;
                }
            }
            if g < 3 {
                cur_bytes = match save(&b, g == 2) {
                    Ok(x) => x,
                    Err(e) => {
                        o.div(at(&format!("save-failed:{}", panic_site(&e))), format!("{} generation {}: {}", origin, g, e));
                        return o;
                    }
                };
            }
            if g == 1 {
                explicit1 = explicit_font_objects(&b);
                gen1_book = Some(b);
            }
            o.count("generations", 1);
        }
        // normal form of orig~gen1: a font that is None on one side and Some on the other is a wildcard
        // (None = font 0 of that file's style sheet, not observable through the API)
        let wild: Vec<&String> = explicit0.symmetric_difference(&explicit1).collect();
        // a cell that held nothing of its own in the original (no value, no formula, no formatting; it exists because a hyperlink
        // or a comment sits on it) is re-created on load and then shows the formatting of its row / column, as a new cell does
        let nothing_of_its_own = |key: &str| -> bool {
            match key.split_once("/style/") {
                Some((sheet, rest)) => {
                    let a1 = rest.split('/').next().unwrap_or("");
                    !dumps[0].keys().any(|k| k.starts_with(&format!("{}/style/{}/", sheet, a1)) || k.starts_with(&format!("{}/cell/{}/", sheet, a1)))
                }
                None => false,
            }
        };
        report(&mut o, &at("orig~gen1"), &dumps[0], &dumps[1], &|key: &str| (key.contains("font.") && wild.iter().any(|p| key.starts_with(p.as_str()))) || nothing_of_its_own(key));
        report(&mut o, "gen1=gen2", &dumps[1], &dumps[2], &|_| false);
        report(&mut o, "gen2=gen3", &dumps[2], &dumps[3], &|_| false);
        // single-cell edit on the loaded workbook
        // the edit is made on the workbook as loaded from the original file (ids, tables and part names as another producer
        // chose them) or on the re-saved generation; either way the saved result must be generation 1 plus the edit
        let on_original = rng.chance(1, 2);
        if on_original {
            o.count("edits.on-the-originally-loaded-workbook", 1);
        }
        if let Some(mut b) = if on_original { Some(book.clone()) } else { gen1_book } {
            let n = b.get_sheet_count();
            let si = rng.below(n as u64) as usize;
            let existing: Vec<(u32, u32)> = b.get_sheet(&si).map(|ws| ws.get_cell_collection().iter().map(|c| (*c.get_coordinate().get_col_num(), *c.get_coordinate().get_row_num())).collect()).unwrap_or_default();
            // formula cells, and members of shared-formula groups in particular, are preferred targets: other cells depend on them
            let formulas: Vec<(u32, u32)> = b.get_sheet(&si).map(|ws| ws.get_cell_collection().iter().filter(|c| c.is_formula()).map(|c| (*c.get_coordinate().get_col_num(), *c.get_coordinate().get_row_num())).collect()).unwrap_or_default();
            let shared: Vec<(u32, u32)> = b.get_sheet(&si).map(|ws| ws.get_cell_collection().iter().filter(|c| c.get_formula_shared_index().is_some()).map(|c| (*c.get_coordinate().get_col_num(), *c.get_coordinate().get_row_num())).collect()).unwrap_or_default();
            let pos = match rng.below(6) {
                0 | 1 if !shared.is_empty() => {
                    o.count("edits.on-shared-formula-cell", 1);
                    // the first member in document order is the master
                    if rng.chance(1, 2) { *shared.iter().min_by_key(|p| (p.1, p.0)).unwrap() } else { *rng.pick(&shared) }
                }
                2 if !formulas.is_empty() => {
                    o.count("edits.on-formula-cell", 1);
                    *rng.pick(&formulas)
                }
                3 | 4 if !existing.is_empty() => *rng.pick(&existing),
                _ => (rng.range(1, 30), rng.range(1, 60)),
            };
            let a1 = helper::coordinate::coordinate_from_index(&pos.0, &pos.1);
            // a third of the edits also give the cell a number format no other cell uses
            let restyle = rng.chance(1, 2);
            let edited = guard(|| {
                let cell = b.get_sheet_mut(&si).unwrap().get_cell_mut(pos);
                cell.set_value_string(format!("EDIT-{}", k));
                if restyle {
                    cell.get_style_mut().get_number_format_mut().set_format_code(format!("0.0000\"edit{}\"", k));
                }
            });
            if restyle {
                o.count("edits.with-new-number-format", 1);
            }
            if edited.is_ok() {
                o.count("edits", 1);
                let after = save(&b, false).and_then(|x| load(&x)).and_then(|x| dump_book_guarded(&x, Sections::ALL));
                match after {
                    Ok(d) => {
                        let prefix_cell = format!("sh{}/cell/{}/", si, a1);
                        // a new cell takes the formatting of its row/column, as in Excel
                        let prefix_style = format!("sh{}/style/{}/", si, a1);
                        report(&mut o, "edit-changes-other", &dumps[1], &d, &|key: &str| key.starts_with(&prefix_cell) || key.starts_with(&prefix_style));
                        if d.get(&format!("{}v", prefix_cell)).map(|v| v.as_str()) != Some(&format!("EDIT-{}", k)) {
                            o.div("edit-not-present", format!("{} sheet {} {}", origin, si, a1));
                        }
                    }
                    Err(e) => o.div(at(&format!("edit-save-reload-failed:{}", panic_site(&e))), e),
                }
            }
        }
        o
    });
    finish(&a2, agg, vec![("corpus_files", J::I(ncorpus as i64))]);
}
