//! C11: lazy loading is equivalent to eager loading for every access pattern.
//! The eager workbook subjected to the same history is the sequential model (differential oracle);
//! the files saved from the lazy workbook are also handed to the independent package validator.
use crate::common::*;
use crate::dump::*;
use std::collections::BTreeMap;
use std::io::Write;
use umya_spreadsheet::*;

fn sheet_dump(book: &Spreadsheet, i: usize) -> Result<Dump, String> {
    guard(|| {
        let mut d = Dump::new();
        dump_sheet(&book.get_sheet_collection_no_check()[i], "sh", Sections::ALL, &mut d);
        d
    })
}

pub fn run(args: &Args) {
    std::fs::create_dir_all(&args.out).unwrap();
    let meta = std::sync::Mutex::new(std::io::BufWriter::new(std::fs::File::create(format!("{}/files.jsonl", args.out)).unwrap()));
    let corpus = crate::c02::corpus_files();
    let ncorpus = corpus.len() as u64;
    let per_corpus = if args.tier == "thorough" { 15 } else { 5 };
    // files written by the grammar-based generator (other serialisation styles: indented XML, apostrophe-quoted attributes, ...)
    let grammar: Vec<std::path::PathBuf> = args.get("list").map(|l| std::fs::read_to_string(l).unwrap_or_default().lines().filter(|x| !x.is_empty()).map(std::path::PathBuf::from).collect()).unwrap_or_default();
    let ngrammar = grammar.len() as u64;
    let a2 = Args { cases: args.cases + ncorpus * per_corpus + ngrammar, ..Args::parse() };
    let agg = run_cases(&a2, |seed, k| {
        let mut o = Outcome::default();
        let mut rng = Rng::new(seed, k);
        let (bytes, origin) = if k < ncorpus * per_corpus {
            let p = &corpus[(k / per_corpus) as usize];
            o.feat("corpus");
            (std::fs::read(p).unwrap(), p.file_name().unwrap().to_string_lossy().to_string())
        } else if k < ncorpus * per_corpus + ngrammar {
            o.feat("grammar-generated-file");
            (std::fs::read(&grammar[(k - ncorpus * per_corpus) as usize]).unwrap(), "generated".to_string())
        } else {
            let mut o2 = Outcome::default();
            let book = match guard(|| crate::c02::build(&mut rng, &mut o2)) {
                Ok(b) => b,
                Err(e) => {
                    o.inconclusive = Some(format!("generator panicked: {}", e));
                    return o;
                }
            };
            match save(&book, rng.chance(1, 2)) {
                Ok(b) => (b, "generated".to_string()),
                Err(e) => {
                    o.inconclusive = Some(format!("cannot save the generated workbook: {}", e));
                    return o;
                }
            }
        };
        let at = |sig: &str| if origin != "generated" { format!("{}@{}", sig, origin) } else { sig.to_string() };
        let eager0 = guard(|| reader::xlsx::read_reader(std::io::Cursor::new(bytes.clone()), true));
        let lazy0 = guard(|| reader::xlsx::read_reader(std::io::Cursor::new(bytes.clone()), false));
        let (mut eager, mut lazy) = match (eager0, lazy0) {
            (Ok(Ok(e)), Ok(Ok(l))) => (e, l),
            (e, l) => {
                // a file the eager reader rejects is outside the property; a file only the lazy reader rejects is not
                if matches!(e, Ok(Ok(_))) {
                    o.div(at("lazy-open-failed"), format!("{}: {:?}", origin, l.err()));
                } else {
                    o.inconclusive = Some(format!("{} not loadable eagerly", origin));
                }
                return o;
            }
        };
        // before anything is materialised: the streaming accessor must show, sheet by sheet, what eager loading shows
        // (every grammar-generated and API-generated file; corpus files once)
        if k >= ncorpus * per_corpus || k % per_corpus == 0 {
            let view = |cells: Vec<&Cell>| -> BTreeMap<String, (String, String)> {
                cells.iter().filter(|c| !c.get_value().is_empty() || !c.get_formula().is_empty()).map(|c| (c.get_coordinate().get_coordinate(), (c.get_value().to_string(), c.get_formula().to_string()))).collect()
            };
            for i in 0..lazy.get_sheet_count() {
                o.count("streamed-sheets-compared", 1);
                o.observations += 1;
                let got = guard(|| lazy.get_lazy_read_sheet_cells(&i).map(|cs| view(cs.get_collection_sorted())));
                let exp = guard(|| view(eager.get_sheet_collection_no_check()[i].get_cell_collection_sorted()));
                match (got, exp) {
                    (Ok(Ok(g)), Ok(e)) => {
                        if let Some((k2, ve)) = e.iter().find(|(k2, ve)| g.get(*k2) != Some(ve)) {
                            o.div(at("lazy-stream-differs"), format!("{} sheet {}: cell {} eager {:?} streamed {:?}", origin, i, k2, ve, g.get(k2)));
                            return o;
                        }
                        if let Some(k2) = g.keys().find(|k2| !e.contains_key(*k2)) {
                            o.div(at("lazy-stream-differs"), format!("{} sheet {}: streamed cell {} {:?} does not exist eagerly", origin, i, k2, g.get(k2)));
                            return o;
                        }
                    }
                    (g, e) => {
                        o.div(at("lazy-stream-failed"), format!("{} sheet {}: {:?} / {:?}", origin, i, g.err(), e.err()));
                        return o;
                    }
                }
            }
        }
        let mut loaded: Vec<bool> = vec![false; lazy.get_sheet_count()];
        let mut hist: Vec<String> = vec![];
        // the first three histories of every corpus file are fixed and minimal: add / remove / rename a sheet while every
        // other sheet is still unloaded; the rest are random
        let script: Option<Vec<u64>> = if k < ncorpus * per_corpus { match k % per_corpus { 0 => Some(vec![7]), 1 => Some(vec![8]), 2 => Some(vec![9, 5]), _ => None } } else { None };
        let nops = script.as_ref().map(|s| s.len() as u32).unwrap_or_else(|| rng.range(1, 10));
        let focus = script.is_none() && rng.chance(1, 3);
        if focus {
            o.feat("history:objects-added-before-unloaded-sheets");
        }
        let mut uid = 0;
        'ops: for _ in 0..nops {
            let n = lazy.get_sheet_count();
            if n == 0 {
                break;
            }
            let mut i = rng.below(n as u64) as usize;
            let mut op = rng.below(16);
            if focus {
                // early sheets gain objects (comments, charts) while the later sheets stay unloaded until the save
                i = rng.below(n.min(2) as u64) as usize;
                op = *rng.pick(&[2u64, 5, 13, 14, 13, 9, 7]);
            }
            if let Some(sc) = &script {
                op = sc[hist.len().min(sc.len() - 1)];
            }
            let name_i = lazy.get_sheet_collection_no_check()[i].get_name().to_string();
            // in-range arguments only: no insert below content that already sits on the last row
            if op == 10 {
                let ws = &eager.get_sheet_collection_no_check()[i];
                let last_row_entry = ws.get_row_dimensions().iter().map(|r| *r.get_row_num()).max().unwrap_or(0);
                if ws.get_highest_row().max(last_row_entry) >= 1_048_576 {
                    op = 0;
                }
            }
            if op == 15 && loaded.get(i).copied().unwrap_or(true) {
                op = 0; // the streaming accessor is only defined for sheets that are still unloaded
            }
            if op == 15 {
                // the streaming accessor of a lazily opened workbook: the cells of sheet i without materialising it
                hist.push(format!("get_lazy_read_sheet_cells({})", i));
                o.count("op.get_lazy_read_sheet_cells", 1);
                let view = |cells: Vec<&Cell>| -> BTreeMap<String, (String, String)> {
                    cells.iter().filter(|c| !c.get_value().is_empty() || !c.get_formula().is_empty()).map(|c| (c.get_coordinate().get_coordinate(), (c.get_value().to_string(), c.get_formula().to_string()))).collect()
                };
                let got = guard(|| lazy.get_lazy_read_sheet_cells(&i).map(|cs| view(cs.get_collection_sorted())));
                let exp = guard(|| view(eager.get_sheet_collection_no_check()[i].get_cell_collection_sorted()));
                o.observations += 1;
                match (got, exp) {
                    (Ok(Ok(g)), Ok(e)) => {
                        if let Some((k2, ve)) = e.iter().find(|(k2, ve)| g.get(*k2) != Some(ve)) {
                            o.div(at("lazy-stream-differs"), format!("{} sheet {} after {:?}: cell {} eager {:?} streamed {:?}", origin, i, hist, k2, ve, g.get(k2)));
                            break 'ops;
                        }
                        if let Some(k2) = g.keys().find(|k2| !e.contains_key(*k2)) {
                            o.div(at("lazy-stream-differs"), format!("{} sheet {} after {:?}: streamed cell {} {:?} does not exist eagerly", origin, i, hist, k2, g.get(k2)));
                            break 'ops;
                        }
                    }
                    (g, e) => {
                        o.div(at("lazy-stream-failed"), format!("{} sheet {}: {:?} / {:?}", origin, i, g.err().or(None), e.err()));
                        break 'ops;
                    }
                }
                continue;
            }
            uid += 1;
            let desc;
            // apply the same operation to both workbooks
            let mut apply = |b: &mut Spreadsheet, lazy_side: bool, loaded: &mut Vec<bool>| -> Result<(), String> {
                guard(|| match op {
                    0 => {
                        b.read_sheet(i);
                        if lazy_side {
                            loaded[i] = true;
                        }
                    }
                    1 => {
                        b.read_sheet_by_name(&name_i);
                        if lazy_side {
                            loaded[i] = true;
                        }
                    }
                    2 => {
                        let _ = b.get_sheet_mut(&i);
                        if lazy_side {
                            loaded[i] = true;
                        }
                    }
                    3 => {
                        let _ = b.get_sheet_by_name_mut(&name_i);
                        if lazy_side {
                            loaded[i] = true;
                        }
                    }
                    4 => {
                        b.read_sheet_collection();
                        if lazy_side {
                            loaded.iter_mut().for_each(|x| *x = true);
                        }
                    }
                    5 | 6 => {
                        let ws = b.get_sheet_mut(&i).unwrap();
                        ws.get_cell_mut(((uid % 7 + 1) as u32, (uid % 11 + 1) as u32)).set_value_string(format!("edit-{}-{}", k, uid));
                        if lazy_side {
                            loaded[i] = true;
                        }
                    }
                    7 => {
                        let _ = b.new_sheet(format!("New{}", uid));
                        if lazy_side {
                            loaded.push(true);
                        }
                    }
                    8 => {
                        if b.get_sheet_count() > 1 {
                            b.remove_sheet(i).unwrap();
                            if lazy_side {
                                loaded.remove(i);
                            }
                        }
                    }
                    9 => {
                        let _ = b.set_sheet_name(i, format!("Renamed {}", uid));
                    }
                    10 => {
                        b.insert_new_row(&name_i, &2, &1);
                        if lazy_side {
                            loaded.iter_mut().for_each(|x| *x = true);
                        }
                    }
                    11 => {
                        b.remove_column_by_index(&name_i, &3, &1);
                        if lazy_side {
                            loaded.iter_mut().for_each(|x| *x = true);
                        }
                    }
                    12 => {
                        let ws = b.get_sheet_by_name_mut(&name_i).unwrap();
                        ws.remove_cell((1, 1));
                        if lazy_side {
                            loaded[i] = true;
                        }
                    }
                    13 => {
                        // a loaded sheet gains a comment (new comments / vmlDrawing parts next to those of unloaded sheets)
                        let ws = b.get_sheet_mut(&i).unwrap();
                        let mut c = Comment::default();
                        c.new_comment(format!("B{}", 60 + uid % 7).as_str());
                        c.set_text_string(format!("lazy-comment-{}-{}", k, uid));
                        c.set_author("uvh");
                        ws.add_comments(c);
                        if lazy_side {
                            loaded[i] = true;
                        }
                    }
                    _ => {
                        // a loaded sheet gains a chart (new drawing / chart parts)
                        let q = format!("'{}'", name_i.replace('\'', "''"));
                        let series = vec![format!("{}!$B$2:$B$6", q), format!("{}!$C$2:$C$6", q)];
                        let mut from = umya_spreadsheet::structs::drawing::spreadsheet::MarkerType::default();
                        let mut to = umya_spreadsheet::structs::drawing::spreadsheet::MarkerType::default();
                        from.set_coordinate("H20");
                        to.set_coordinate("N30");
                        let mut chart = Chart::default();
                        chart.new_chart(ChartType::LineChart, from, to, series.iter().map(|s| s.as_str()).collect());
                        b.get_sheet_mut(&i).unwrap().add_chart(chart);
                        if lazy_side {
                            loaded[i] = true;
                        }
                    }
                })
            };
            desc = format!("{}({})", ["read_sheet", "read_sheet_by_name", "get_sheet_mut", "get_sheet_by_name_mut", "read_sheet_collection", "edit", "edit", "new_sheet", "remove_sheet", "set_sheet_name", "insert_new_row", "remove_column", "remove_cell", "add_comment", "add_chart"][op as usize], i);
            hist.push(desc.clone());
            o.count(&format!("op.{}", desc.split('(').next().unwrap()), 1);
            let mut dummy = vec![];
            let re = apply(&mut eager, false, &mut dummy);
            let rl = apply(&mut lazy, true, &mut loaded);
            match (re, rl) {
                (Ok(()), Ok(())) => {}
                (Err(_), Err(_)) => {
                    // the operation fails on both sides alike (e.g. a structural edit the corpus file cannot take): not a lazy/eager difference
                    o.count("ops-failing-on-both-sides", 1);
                    break 'ops;
                }
                (Ok(()), Err(e)) => {
                    o.div(at(&format!("lazy-only-panic:{}", panic_site(&e))), format!("{} history {:?}: {}", origin, hist, e));
                    break 'ops;
                }
                (Err(e), Ok(())) => {
                    o.div(at(&format!("eager-only-panic:{}", panic_site(&e))), format!("{} history {:?}: {}", origin, hist, e));
                    break 'ops;
                }
            }
            // (a) every sheet that has been accessed shows what eager loading shows
            for (j, is_loaded) in loaded.iter().enumerate() {
                if !*is_loaded {
                    continue;
                }
                o.observations += 1;
                match (sheet_dump(&lazy, j), sheet_dump(&eager, j)) {
                    (Ok(dl), Ok(de)) => {
                        let mut per: BTreeMap<String, u32> = BTreeMap::new();
                        for di in diff(&de, &dl) {
                            let sig = at(&format!("accessed-sheet-differs:{}", di.class));
                            let n = per.entry(sig.clone()).or_insert(0);
                            *n += 1;
                            if *n <= 1 {
                                o.div(sig, format!("{} sheet {} after {:?}: {} (eager vs lazy) {}", origin, j, hist, di.key, window(&di.a, &di.b)));
                            }
                        }
                        if !per.is_empty() {
                            break 'ops;
                        }
                    }
                    (a, b) => {
                        o.div(at("dump-panicked"), format!("{:?} {:?}", a.err(), b.err()));
                        break 'ops;
                    }
                }
            }
        }
        // (b) the saved results must agree
        let light = rng.chance(1, 3);
        let sl = save(&lazy, light);
        let se = save(&eager, light);
        match (sl, se) {
            (Ok(bl), Ok(be)) => {
                o.count("saves", 1);
                let fname = format!("case-{}.xlsx", k);
                std::fs::write(format!("{}/{}", args.out, fname), &bl).unwrap();
                writeln!(meta.lock().unwrap(), "{}", jo(vec![("case", J::I(k as i64)), ("seed", J::I(seed as i64)), ("file", js(&fname)), ("origin", js(&origin)), ("history", J::A(hist.iter().map(js).collect()))]).to_string()).unwrap();
                match (load(&bl), load(&be)) {
                    (Ok(rl), Ok(re)) => match (dump_book_guarded(&rl, Sections::ALL), dump_book_guarded(&re, Sections::ALL)) {
                        (Ok(dl), Ok(de)) => {
                            o.observations += de.len() as u64;
                            let mut per: BTreeMap<String, u32> = BTreeMap::new();
                            // same normal form as C04: a font that is None on one side and Some on the other is a wildcard
                            // (None = font 0 of that file; sheets written from raw XML keep explicit fonts, re-serialised ones do not)
                            let (el, ee) = (explicit_font_objects(&rl), explicit_font_objects(&re));
                            let wild: Vec<&String> = el.symmetric_difference(&ee).collect();
                            for di in diff(&de, &dl) {
                                if di.key.contains("font.") && wild.iter().any(|p| di.key.starts_with(p.as_str())) {
                                    continue;
                                }
                                let sig = at(&format!("saved-result-differs:{}", di.class));
                                let n = per.entry(sig.clone()).or_insert(0);
                                *n += 1;
                                if *n <= 1 {
                                    o.div(sig, format!("{} history {:?}: {} (eager vs lazy) {}", origin, hist, di.key, window(&di.a, &di.b)));
                                }
                            }
                        }
                        (a, b) => o.div(at("dump-of-saved-result-panicked"), format!("{:?} {:?}", a.err(), b.err())),
                    },
                    (Err(e), Ok(_)) => o.div(at(&format!("lazy-output-not-loadable:{}", panic_site(&e))), format!("{} history {:?}: {}", origin, hist, e)),
                    (Ok(_), Err(e)) => o.count("eager-output-not-loadable", { let _ = e; 1 }),
                    (Err(_), Err(_)) => o.count("both-outputs-not-loadable", 1),
                }
            }
            (Err(e), Ok(_)) => o.div(at(&format!("lazy-save-failed:{}", panic_site(&e))), format!("{} history {:?}: {}", origin, hist, e)),
            (Ok(_), Err(_)) | (Err(_), Err(_)) => o.count("eager-save-failed", 1),
        }
        o.count("ops", hist.len() as u64);
        o.nontrivial = !hist.is_empty();
        o.hash = fnv(&format!("{}{:?}", origin, hist));
        o.descr = jo(vec![("origin", js(&origin)), ("history", J::A(hist.iter().map(js).collect()))]);
        o
    });
    meta.lock().unwrap().flush().unwrap();
    finish(&a2, agg, vec![("corpus_files", J::I(ncorpus as i64))]);
}
