//! C20: CSV export is a faithful rectangular rendering of the active sheet.
//! The harness builds sheets through the public API, exports with every option combination and
//! records (options, intended grid, bytes); monitors/csv4180.py decodes and parses independently.
use crate::common::*;
use std::io::Write;
use umya_spreadsheet::*;

const ENCODINGS: &[(&str, &str)] = &[
    ("utf_8", "utf-8"),
    ("shift_jis", "shift_jis"),
    ("koi_8_u", "koi8_u"),
    ("koi_8_r", "koi8_r"),
    ("iso_8859_8_i", "iso8859_8"),
    ("gbk", "gbk"),
    ("euc_kr", "euc_kr"),
    ("big_5", "big5"),
    ("utf_16_le", "utf-16-le"),
    ("utf_16_be", "utf-16-be"),
];

fn enc_value(name: &str) -> CsvEncodeValues {
    match name {
        "shift_jis" => CsvEncodeValues::ShiftJis,
        "koi_8_u" => CsvEncodeValues::Koi8u,
        "koi_8_r" => CsvEncodeValues::Koi8r,
        "iso_8859_8_i" => CsvEncodeValues::Iso88598i,
        "gbk" => CsvEncodeValues::Gbk,
        "euc_kr" => CsvEncodeValues::EucKr,
        "big_5" => CsvEncodeValues::Big5,
        "utf_16_le" => CsvEncodeValues::Utf16Le,
        "utf_16_be" => CsvEncodeValues::Utf16Be,
        _ => CsvEncodeValues::Utf8,
    }
}

/// characters outside ASCII that the encoding can carry and on which the common code-page tables agree
fn extra_alphabet(enc: &str) -> &'static [&'static str] {
    match enc {
        "shift_jis" => &["あ", "い", "ア", "日", "本", "語", "　", "漢"],
        "koi_8_u" => &["Ж", "я", "б", "Є", "ї", "і"],
        "koi_8_r" => &["Ж", "я", "б", "Д", "ю"],
        "iso_8859_8_i" => &["א", "ב", "ש", "ת"],
        "gbk" => &["中", "文", "汉", "字", "　"],
        "euc_kr" => &["한", "글", "가", "나", "　"],
        "big_5" => &["中", "文", "漢", "字", "　"],
        _ => &["é", "ß", "日", "Ж", "א", "한", "😀", "\u{a0}", "　", "\u{2003}", "𠀋"],
    }
}

fn gen_value(rng: &mut Rng, enc: &str, feats: &mut std::collections::BTreeSet<String>) -> String {
    const BASE: &[&str] = &["a", "b", "Z", "0", "7", " ", "-", ".", ";", "x", "y"];
    const HOSTILE: &[(&str, &str)] = &[(",", "comma"), ("\"", "dquote"), ("'", "squote"), ("\n", "lf"), ("\r", "cr"), ("\r\n", "crlf"), ("\t", "tab")];
    let len = rng.range(0, 8);
    let mut s = String::new();
    if rng.chance(1, 5) {
        let pad = *rng.pick(&[" ", "  ", "\t", " \t"]);
        s.push_str(pad);
        feats.insert("pad-lead".into());
    }
    for _ in 0..len {
        match rng.below(10) {
            0 | 1 => {
                let (c, f) = *rng.pick(HOSTILE);
                s.push_str(c);
                feats.insert(f.to_string());
            }
            2 => {
                let ex = extra_alphabet(enc);
                s.push_str(*rng.pick(ex));
                feats.insert("non-ascii".into());
            }
            _ => s.push_str(*rng.pick(BASE)),
        }
    }
    if rng.chance(1, 5) {
        let pad = *rng.pick(&[" ", "  ", "\t"]);
        s.push_str(pad);
        feats.insert("pad-trail".into());
    }
    s
}

pub fn run(args: &Args) {
    std::fs::create_dir_all(&args.out).unwrap();
    let meta = std::sync::Mutex::new(std::io::BufWriter::new(std::fs::File::create(format!("{}/cases.jsonl", args.out)).unwrap()));
    let agg = run_cases(args, |seed, k| {
        let mut o = Outcome::default();
        let mut rng = Rng::new(seed, k);
        // option combination: enumerate systematically (10 x 2 x 3 = 60), then content varies
        let combo = k % 60;
        let (enc_lib, enc_py) = ENCODINGS[(combo % 10) as usize];
        let trim = (combo / 10) % 2 == 1;
        let wrap = ["", "\"", "'"][(combo / 20) as usize];
        let mut book = new_file();
        let nsheets = rng.range(1, 3);
        for i in 1..nsheets {
            book.new_sheet(format!("S{}", i + 1)).unwrap();
        }
        let active = rng.below(nsheets as u64) as u32;
        book.set_active_sheet(active);
        // tab selection (grouped tabs, or the state a file had when it was saved by Excel) is independent of the active sheet
        let mut feats = std::collections::BTreeSet::new();
        if nsheets > 1 && rng.chance(1, 2) {
            for si in 0..nsheets as usize {
                if rng.chance(1, 2) {
                    let views = book.get_sheet_mut(&si).unwrap().get_sheet_views_mut();
                    if views.get_sheet_view_list().is_empty() {
                        views.add_sheet_view_list_mut(SheetView::default());
                    }
                    views.get_sheet_view_list_mut()[0].set_tab_selected(true);
                    if si as u32 != active {
                        feats.insert("tab-selected-on-inactive-sheet".to_string());
                    }
                }
            }
        }
        let mut grids: Vec<std::collections::BTreeMap<(u32, u32), String>> = vec![Default::default(); nsheets as usize];
        // some exports are far larger than any internal block size (64 KiB and more of multi-byte text)
        let big = k % 37 == 11 && k < 12_000;
        if big {
            feats.insert("export-larger-than-64KiB".to_string());
        }
        for si in 0..nsheets as usize {
            let ncells = if si as u32 == active { if big { 24000 } else { rng.range(1, 14) } } else { rng.range(0, 4) };
            let (w, h) = if big && si as u32 == active { (3, 8000) } else { (rng.range(1, 6), rng.range(1, 7)) };
            for _ in 0..ncells {
                let (c, r) = (rng.range(1, w), rng.range(1, h));
                let ws = book.get_sheet_mut(&si).unwrap();
                let text = match rng.below(12) {
                    0 => {
                        let v = rng.irange(-5000, 5000) as f64 / 8.0;
                        ws.get_cell_mut((c, r)).set_value_number(v);
                        v.to_string()
                    }
                    1 => {
                        let b = rng.chance(1, 2);
                        ws.get_cell_mut((c, r)).set_value_bool(b);
                        (if b { "TRUE" } else { "FALSE" }).to_string()
                    }
                    2 => {
                        // rich text: the value text is the concatenation of the runs
                        let (a, b) = (gen_value(&mut rng, enc_lib, &mut feats), gen_value(&mut rng, enc_lib, &mut feats));
                        let mut rt = RichText::default();
                        for (i, part) in [&a, &b].iter().enumerate() {
                            let mut te = TextElement::default();
                            te.set_text((*part).clone());
                            if i == 1 {
                                te.get_font_mut().set_bold(true);
                            }
                            rt.add_rich_text_elements(te);
                        }
                        ws.get_cell_mut((c, r)).set_rich_text(rt);
                        feats.insert("rich-text".into());
                        format!("{}{}", a, b)
                    }
                    3 => {
                        // formula: the field carries the cached result
                        let t = gen_value(&mut rng, enc_lib, &mut feats);
                        let cell = ws.get_cell_mut((c, r));
                        cell.set_formula("A1&\"x\"");
                        cell.set_formula_result_default(t.clone());
                        feats.insert("formula-cached-text".into());
                        // the setter guesses the kind of the result ("07" becomes the number 7): the field carries the value text the cell then has
                        cell.get_value().to_string()
                    }
                    4 => {
                        let e = *rng.pick(&["#DIV/0!", "#N/A", "#REF!", "#VALUE!"]);
                        ws.get_cell_mut((c, r)).set_error(e);
                        feats.insert("error-cell".into());
                        e.to_string()
                    }
                    _ => {
                        let t = gen_value(&mut rng, enc_lib, &mut feats);
                        ws.get_cell_mut((c, r)).set_value_string(t.clone());
                        t
                    }
                };
                grids[si].insert((c, r), text);
            }
        }
        let g = &grids[active as usize];
        let maxc = g.keys().map(|k| k.0).max().unwrap_or(0);
        let maxr = g.keys().map(|k| k.1).max().unwrap_or(0);
        if g.len() < (maxc * maxr) as usize {
            feats.insert("gaps".into());
        }
        let mut opt = CsvWriterOption::default();
        opt.set_csv_encode_value(enc_value(enc_lib));
        opt.set_do_trim(trim);
        opt.set_wrap_with_char(wrap);
        let mut cur = std::io::Cursor::new(Vec::new());
        let res = guard(|| writer::csv::write_writer(&book, &mut cur, &opt).map_err(|e| format!("{:?}", e)));
        let bytes = cur.into_inner();
        o.observations += 1;
        let status = match &res {
            Ok(Ok(())) => "ok".to_string(),
            Ok(Err(e)) => format!("err: {}", e),
            Err(e) => format!("panic: {}", e),
        };
        std::fs::write(format!("{}/case-{}.csv", args.out, k), &bytes).unwrap();
        let rows: Vec<J> = (1..=maxr).map(|r| J::A((1..=maxc).map(|c| js(g.get(&(c, r)).cloned().unwrap_or_default())).collect())).collect();
        let line = jo(vec![
            ("case", J::I(k as i64)),
            ("seed", J::I(seed as i64)),
            ("encoding", js(enc_py)),
            ("enc_lib", js(enc_lib)),
            ("trim", J::B(trim)),
            ("wrap", js(wrap)),
            ("active", J::I(active as i64)),
            ("sheets", J::I(nsheets as i64)),
            ("status", js(status)),
            ("grid", J::A(rows)),
            ("features", J::A(feats.iter().map(js).collect())),
        ]);
        writeln!(meta.lock().unwrap(), "{}", line.to_string()).unwrap();
        o.features = feats;
        o.feat(&format!("enc:{}", enc_lib));
        o.feat(&format!("wrap:{}", if wrap.is_empty() { "none" } else { wrap }));
        o.feat(if trim { "trim:on" } else { "trim:off" });
        o.nontrivial = true;
        o.hash = fnv(&line.to_string());
        o.descr = jo(vec![("encoding", js(enc_lib)), ("trim", J::B(trim)), ("wrap", js(wrap)), ("cells", J::I(g.len() as i64)), ("size", js(format!("{}x{}", maxc, maxr)))]);
        o
    });
    meta.lock().unwrap().flush().unwrap();
    finish(args, agg, vec![]);
}
