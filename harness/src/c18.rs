//! C18: date serial <-> calendar conversions are exact in both directions (1900 system).
//! Oracle: independent civil-calendar arithmetic (days-from-civil / civil-from-days).
use crate::common::*;
use umya_spreadsheet::helper::date::*;
use umya_spreadsheet::helper::number_format::to_formatted_string;

/// days since 1970-01-01 of a proleptic Gregorian date (Hinnant's algorithm, written independently)
pub fn days_from_civil(y: i64, m: i64, d: i64) -> i64 {
    let y = if m <= 2 { y - 1 } else { y };
    let era = if y >= 0 { y } else { y - 399 } / 400;
    let yoe = y - era * 400;
    let mp = (m + 9) % 12;
    let doy = (153 * mp + 2) / 5 + d - 1;
    let doe = yoe * 365 + yoe / 4 - yoe / 100 + doy;
    era * 146097 + doe - 719468
}
pub fn civil_from_days(z: i64) -> (i64, i64, i64) {
    let z = z + 719468;
    let era = if z >= 0 { z } else { z - 146096 } / 146097;
    let doe = z - era * 146097;
    let yoe = (doe - doe / 1460 + doe / 36524 - doe / 146096) / 365;
    let y = yoe + era * 400;
    let doy = doe - (365 * yoe + yoe / 4 - yoe / 100);
    let mp = (5 * doy + 2) / 153;
    let d = doy - (153 * mp + 2) / 5 + 1;
    let m = if mp < 10 { mp + 3 } else { mp - 9 };
    (if m <= 2 { y + 1 } else { y }, m, d)
}
/// serial day number of the 1900 date system
fn ref_serial_day(y: i64, m: i64, d: i64) -> i64 {
    let n = days_from_civil(y, m, d) - days_from_civil(1899, 12, 30);
    if (y, m) < (1900, 3) {
        n - 1
    } else {
        n
    }
}

fn check(o: &mut Outcome, y: i64, m: i64, d: i64, secs: i64, with_format: bool, prev: &mut Option<(f64, i64)>) {
    let (hh, mm, ss) = (secs / 3600, (secs / 60) % 60, secs % 60);
    let label = format!("{:04}-{:02}-{:02} {:02}:{:02}:{:02}", y, m, d, hh, mm, ss);
    let day = ref_serial_day(y, m, d);
    let exact = day as f64 + secs as f64 / 86400.0;
    o.observations += 1;
    let got = guard(|| convert_date_windows_1900(y as i32, m as i32, d as i32, hh as i32, mm as i32, ss as i32));
    let serial = match got {
        Ok(v) => v,
        Err(e) => {
            o.div("to_serial.panic", format!("{}: {}", label, e));
            return;
        }
    };
    o.count("to_serial", 1);
    o.count("distinct_inputs", 1);
    if (serial - exact).abs() > 1e-9 {
        o.div("to_serial.value", format!("{} -> {} expected {}", label, serial, exact));
    }
    let g2 = guard(|| convert_date(y as i32, m as i32, d as i32, hh as i32, mm as i32, ss as i32));
    if g2 != Ok(serial) {
        o.div("to_serial.convert_date_differs", format!("{} -> {:?} vs {}", label, g2, serial));
    }
    // strictly increasing along the enumeration order
    let abs_secs = (days_from_civil(y, m, d)) * 86400 + secs;
    if let Some((ps, pa)) = *prev {
        o.count("monotonic_pairs", 1);
        if pa < abs_secs && !(ps < serial) {
            o.div("monotonic", format!("{} serial {} not greater than previous {}", label, serial, ps));
        }
    }
    *prev = Some((serial, abs_secs));
    // inverse direction (serial 60 does not exist as a calendar date; never generated because we start from dates)
    let back = guard(|| format!("{}", excel_to_date_time_object(&serial, None)));
    o.count("from_serial", 1);
    match back {
        Ok(s) => {
            if s != label {
                o.div("from_serial.value", format!("{} -> {} -> {}", label, serial, s));
            }
        }
        Err(e) => o.div("from_serial.panic", format!("{} ({}): {}", label, serial, e)),
    }
    if with_format {
        o.count("formatted", 1);
        let f = guard(|| to_formatted_string(&format!("{}", serial), "yyyy-mm-dd hh:mm:ss"));
        match f {
            Ok(s) => {
                if s != label {
                    o.div("formatted.value", format!("{} serial {} shown as {:?}", label, serial, s));
                }
            }
            Err(e) => o.div("formatted.panic", format!("{} ({}): {}", label, serial, e)),
        }
        let f = guard(|| to_formatted_string(&format!("{}", day), "yyyy-mm-dd"));
        let dl = &label[..10];
        if f.as_deref() != Ok(dl) {
            o.div("formatted.date_only", format!("{} serial {} shown as {:?}", dl, day, f));
        }
        // date formats as spreadsheets carry them: quoted literal text before / between / after the date parts,
        // locale prefixes, month names; one of them per day, in rotation
        const MONTHS: [&str; 12] = ["January", "February", "March", "April", "May", "June", "July", "August", "September", "October", "November", "December"];
        let mon = MONTHS[(m - 1) as usize];
        const WEEKDAYS: [&str; 7] = ["Monday", "Tuesday", "Wednesday", "Thursday", "Friday", "Saturday", "Sunday"];
        // days_from_civil(1970-01-01) is a Thursday in the proleptic calendar used here
        let wd = WEEKDAYS[((days_from_civil(y, m, d) - days_from_civil(1970, 1, 1)).rem_euclid(7) + 3).rem_euclid(7) as usize];
        let variants: [(&str, String); 15] = [
            ("yyyy\\-mm\\-dd", format!("{:04}-{:02}-{:02}", y, m, d)),
            ("dd\\.mm\\.yyyy", format!("{:02}.{:02}.{:04}", d, m, y)),
            ("[$-F800]dddd, mmmm dd, yyyy", format!("{}, {} {:02}, {:04}", wd, mon, d, y)),
            ("[$-40C]dd/mm/yyyy", format!("{:02}/{:02}/{:04}", d, m, y)),
            ("[$-C09]d mmmm yyyy", format!("{} {} {:04}", d, mon, y)),
            ("\"Due \"dd/mm/yyyy", format!("Due {:02}/{:02}/{:04}", d, m, y)),
            ("yyyy\"-Q-\"mm", format!("{:04}-Q-{:02}", y, m)),
            ("[$-409]yyyy/mm/dd", format!("{:04}/{:02}/{:02}", y, m, d)),
            ("\"Y\"yyyy\"M\"mm\"D\"dd", format!("Y{:04}M{:02}D{:02}", y, m, d)),
            ("yyyy\"年\"m\"月\"d\"日\"", format!("{:04}年{}月{}日", y, m, d)),
            ("yyyy\"-\"\"Q\"m", format!("{:04}-Q{}", y, m)),
            ("\"Date: \"yyyy-mm-dd\" end\"", format!("Date: {:04}-{:02}-{:02} end", y, m, d)),
            ("d-mmm-yy", format!("{}-{}-{:02}", d, &mon[..3], y % 100)),
            ("mmmm d, yyyy", format!("{} {}, {:04}", mon, d, y)),
            ("dd.mm.yyyy", format!("{:02}.{:02}.{:04}", d, m, y)),
        ];
        let (fmt, exp) = &variants[(day.rem_euclid(15)) as usize];
        o.count("formatted.literal-and-locale-formats", 1);
        let f = guard(|| to_formatted_string(&format!("{}", day), fmt));
        if f.as_deref() != Ok(exp.as_str()) {
            o.div("formatted.date_with_literals", format!("{} serial {} with format {:?} shown as {:?}, expected {:?}", dl, day, fmt, f, exp));
        }
    }
}

pub fn run(args: &Args) {
    let thorough = args.tier == "thorough";
    let first = days_from_civil(1900, 1, 1);
    let last = days_from_civil(9999, 12, 31);
    let total_days = last - first + 1;
    let nshards: u64 = 64;
    let full_days: Vec<(i64, i64, i64)> = vec![
        (9999, 12, 31), (1900, 1, 1), (1900, 1, 2), (1900, 2, 27), (1900, 2, 28), (1900, 3, 1), (1900, 3, 2), (1900, 12, 31), (1901, 1, 1), (1904, 2, 29), (1904, 3, 1),
        (1969, 12, 31), (1970, 1, 1), (1999, 12, 31), (2000, 1, 1), (2000, 2, 28), (2000, 2, 29), (2000, 3, 1), (2000, 12, 31), (2001, 1, 1), (2023, 2, 28),
        (2023, 3, 1), (2024, 2, 29), (2024, 12, 31), (2038, 1, 19), (2100, 2, 28), (2100, 3, 1), (2400, 2, 29), (2400, 3, 1), (3000, 1, 1), (4000, 2, 29),
        (4000, 3, 1), (7999, 12, 31), (8000, 1, 1), (9000, 6, 15), (9999, 1, 1), (9999, 2, 28), (9999, 12, 30), (1950, 7, 4), (1910, 10, 10),
    ];
    let nfull = if thorough { full_days.len() } else { 7 };
    let mut a2 = Args { cases: nshards + nfull as u64, ..Args::parse() };
    a2.cmd = args.cmd.clone();
    let agg = run_cases(&a2, |seed, k| {
        let mut o = Outcome::default();
        o.nontrivial = true;
        o.hash = k;
        let mut rng = Rng::new(seed, k);
        let mut prev = None;
        if k < nshards {
            let lo = first + total_days * k as i64 / nshards as i64;
            let hi = first + total_days * (k as i64 + 1) / nshards as i64;
            for z in lo..hi {
                let (y, m, d) = civil_from_days(z);
                let idx = z - first;
                let fmt = idx % 97 == (seed % 97) as i64 || (m == 2 && d >= 28 && y % 100 == 0) || (m == 3 && d == 1 && y % 100 == 0);
                let mut times = vec![0, 43200, 86399, rng.below(86400) as i64];
                if !thorough {
                    times = vec![0, 86399, rng.below(86400) as i64];
                }
                times.sort();
                times.dedup();
                for (i, t) in times.iter().enumerate() {
                    check(&mut o, y, m, d, *t, fmt && (i == 0 || i == times.len() - 1), &mut prev);
                }
                o.count("days", 1);
            }
            o.descr = jo(vec![("day_range", J::A(vec![J::I(lo - first), J::I(hi - first)]))]);
        } else {
            let (y, m, d) = full_days[(k - nshards) as usize];
            for s in 0..86400 {
                check(&mut o, y, m, d, s, s % 601 == 0, &mut prev);
            }
            o.count("full_days", 1);
            o.descr = jo(vec![("every_second_of", js(format!("{:04}-{:02}-{:02}", y, m, d)))]);
        }
        o
    });
    let days = agg.counters.get("days").cloned().unwrap_or(0);
    let ex = days as i64 == total_days;
    finish(&a2, agg, vec![("exhaustive_days", J::B(ex)), ("total_days", J::I(total_days))]);
}
