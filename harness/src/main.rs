//! uvh: runtime-monitoring harness for umya-spreadsheet (properties C01..C20).
mod common;
mod dump;
mod gen;
mod c01;
mod c02;
mod c03;
mod c04;
mod c05;
mod c06;
mod c07;
mod c08;
mod c09;
mod fast;
mod c10;
mod c11;
mod c12;
mod c13;
mod c14;
mod c15;
mod c16;
mod zipx;
mod c17;
mod c18;
mod c19;
mod c20;

fn main() {
    common::install_panic_hook();
    let args = common::Args::parse();
    match args.cmd.as_str() {
        "c01" => c01::run(&args),
        "c02" => c02::run(&args),
        "c03" => c03::run(&args),
        "c04" => c04::run(&args),
        "c05" => c05::run(&args),
        "c06" => c06::run(&args),
        "c07" => c07::run(&args),
        "c08" => c08::run(&args),
        "c09" => c09::run(&args),
        "c10" => c10::run(&args),
        "c11" => c11::run(&args),
        "c12" => c12::run(&args),
        "c13save" => c13::save_cmd(&args),
        "c13loop" => c13::loop_cmd(&args),
        "c13sink" => c13::sink_cmd(&args),
        "c14" => c14::run(&args),
        "c15" => c15::run(&args),
        "c16" => c16::run(&args),
        "c16stress" => c16::stress_cmd(&args),
        "c16unit" => c16::unit_cmd(&args),
        "c17" => c17::run(&args),
        "c18" => c18::run(&args),
        "c19" => c19::run(&args),
        "c20" => c20::run(&args),
        other => {
            eprintln!("unknown command {:?}", other);
            std::process::exit(3);
        }
    }
}
