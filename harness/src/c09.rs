//! C09: formula text survives the tokenizer; translation shifts only relative references.
//! Paths: set_formula + set_coordinate(same) and a far-away insert (identity), and
//! set_coordinate(+dc, +dr) (translation), all compared with the AST renderer / AST translator.
use crate::common::*;
use crate::fast::*;
use std::collections::BTreeSet;
use umya_spreadsheet::helper::coordinate::coordinate_from_index;
use umya_spreadsheet::*;

pub fn run(args: &Args) {
    let agg = run_cases(args, |seed, case| {
        let mut o = Outcome::default();
        let mut rng = Rng::new(seed, case);
        // feature-segregated like C08: base grammar plus at most two extras per case
        let (mut allow, extras) = crate::c08::profile(&mut rng);
        allow.remove("deleted-target-allowed");
        for e in &extras {
            if *e != "deleted-target-allowed" {
                o.feat(e);
            }
        }
        if o.features.is_empty() {
            o.feat("base-grammar-only");
        }
        let mut sheets: Vec<String> = vec!["Sheet1".into(), "Data2".into()];
        if allow.contains("sheet-quoted") {
            sheets.push((*rng.pick(&["My Sheet", "Q&A", "2024", "A1", "x-y", "日本", "a!b", "US$", "US$ and EUR$", "Q#1"])).to_string());
        }
        if allow.contains("sheet-apostrophe") {
            sheets.push("it's".to_string());
        }
        let wide = rng.chance(1, 2);
        let cfg = GenCfg { sheets: &sheets, allow: &allow, w: 30, h: 40, wide };
        let depth = rng.range(1, 6);
        let ast = gen(&mut rng, depth, &cfg);
        let text = render(&ast);
        let mut feats = BTreeSet::new();
        features(&ast, &mut feats);
        for f in &feats {
            o.count(&format!("feature.{}", f), 1);
        }
        o.nontrivial = true;
        o.hash = fnv(&text);
        o.descr = jo(vec![("formula", js(&text)), ("depth", J::I(depth as i64))]);
        let (c0, r0) = if wide { (*rng.pick(&[1u32, 50, 8000, 16384]), *rng.pick(&[1u32, 77, 500_000, 1_048_576])) } else { (rng.range(1, 60), rng.range(1, 80)) };

        // path 1: identity through set_coordinate(same)
        o.observations += 1;
        o.count("path.identity-set_coordinate", 1);
        let got = guard(|| {
            let mut cell = Cell::default();
            cell.set_coordinate((c0, r0));
            cell.set_formula(text.clone());
            cell.set_coordinate((c0, r0));
            cell.get_formula().to_string()
        });
        match &got {
            Ok(g) if norm(g) == norm(&text) => {}
            Ok(g) => o.div("identity:set_coordinate", format!("formula {:?} came back as {:?}; features {:?}", text, g, feats)),
            Err(e) => o.div(format!("identity:set_coordinate:panic:{}", panic_site(e)), format!("formula {:?}: {}", text, e)),
        }
        // path 1b: get_formula right after set_formula must be the text itself
        let got = guard(|| {
            let mut cell = Cell::default();
            cell.set_formula(text.clone());
            cell.get_formula().to_string()
        });
        if got.as_deref() != Ok(text.as_str()) {
            o.div("identity:set_formula", format!("formula {:?} stored as {:?}", text, got));
        }

        // path 2: an insert that concerns none of the references (far below / right of all of them, or on another sheet)
        if !wide {
            o.observations += 1;
            o.count("path.identity-far-insert", 1);
            let got = guard(|| {
                let mut book = crate::gen::new_book(&sheets);
                book.get_sheet_mut(&0).unwrap().get_cell_mut((c0, r0)).set_formula(text.clone());
                match rng.below(4) {
                    0 => book.get_sheet_mut(&0).unwrap().insert_new_row(&1_000_000, &3),
                    1 => book.get_sheet_mut(&0).unwrap().insert_new_column_by_index(&10_000, &2),
                    2 => book.insert_new_row("Sheet1", &1_000_000, &1),
                    _ => book.remove_row("Sheet1", &900_000, &2),
                }
                book.get_sheet(&0).unwrap().get_cell((c0, r0)).map(|c| c.get_formula().to_string())
            });
            match &got {
                Ok(Some(g)) if norm(g) == norm(&text) => {}
                Ok(g) => o.div("identity:far-insert", format!("formula {:?} came back as {:?}; features {:?}", text, g, feats)),
                Err(e) => o.div(format!("identity:far-insert:panic:{}", panic_site(e)), format!("formula {:?}: {}", text, e)),
            }
        }

        // path 2b: an edit at the top-left of ANOTHER sheet that none of the formula's references points to (references into
        // other workbooks, [1]Data2!A1, do not point to the local sheet of that name)
        if !wide {
            let mut v = vec![];
            refs_of(&ast, &mut v);
            if !v.iter().any(|r| r.sheet.as_deref() == Some("Data2")) {
                o.observations += 1;
                o.count("path.identity-edit-on-unreferenced-sheet", 1);
                let got = guard(|| {
                    let mut book = crate::gen::new_book(&sheets);
                    book.get_sheet_mut(&0).unwrap().get_cell_mut((c0, r0)).set_formula(text.clone());
                    match rng.below(4) {
                        0 => book.insert_new_row("Data2", &1, &2),
                        1 => book.insert_new_column_by_index("Data2", &1, &1),
                        2 => book.remove_row("Data2", &1, &1),
                        _ => book.remove_column_by_index("Data2", &2, &1),
                    }
                    book.get_sheet(&0).unwrap().get_cell((c0, r0)).map(|c| c.get_formula().to_string())
                });
                match &got {
                    Ok(Some(g)) if norm(g) == norm(&text) => {}
                    Ok(g) => o.div("identity:edit-on-unreferenced-sheet", format!("formula {:?} came back as {:?} after an edit of sheet Data2; features {:?}", text, g, feats)),
                    Err(e) => o.div(format!("identity:edit-on-unreferenced-sheet:panic:{}", panic_site(e)), format!("formula {:?}: {}", text, e)),
                }
            }
        }

        // path 3: translation by (dc, dr). External references ([1]Sheet1!A1) are references too and do move when
        // relative; the generator models them as opaque text, so they are only exercised on the identity paths.
        let translations = if feats.contains("external-ref") { 0 } else { 2 };
        for _ in 0..translations {
            let (c1, r1) = match rng.below(4) {
                0 => (c0, r0),
                1 => (*rng.pick(&[1u32, 2, 16383, 16384]), *rng.pick(&[1u32, 2, 1_048_575, 1_048_576])),
                2 => (rng.range(1, 16384), rng.range(1, 1_048_576)),
                _ => ((c0 as i64 + rng.irange(-5, 5)).clamp(1, 16384) as u32, (r0 as i64 + rng.irange(-5, 5)).clamp(1, 1_048_576) as u32),
            };
            let (dc, dr) = (c1 as i64 - c0 as i64, r1 as i64 - r0 as i64);
            let exp_ast = translate_ast(&ast, dc, dr);
            let exp = render(&exp_ast);
            let alt = render(&crate::c08::strip_referr_prefix(&exp_ast));
            o.observations += 1;
            o.count("path.translate", 1);
            if exp.contains("#REF!") && !text.contains("#REF!") {
                o.count("translate.leaves-grid", 1);
            }
            let got = guard(|| {
                let mut cell = Cell::default();
                cell.set_coordinate((c0, r0));
                cell.set_formula(text.clone());
                cell.set_coordinate((c1, r1));
                cell.get_formula().to_string()
            });
            match &got {
                Ok(g) if norm(g) == norm(&exp) || norm(g) == norm(&alt) => {}
                Ok(g) => {
                    let kind = if exp.contains("#REF!") && !text.contains("#REF!") { "translate:leaves-grid" } else { "translate" };
                    o.div(kind, format!("formula {:?} moved {}->{} (dc={}, dr={}): expected {:?} got {:?}; features {:?}", text, coordinate_from_index(&c0, &r0), coordinate_from_index(&c1, &r1), dc, dr, exp, g, feats))
                }
                Err(e) => o.div(format!("translate:panic:{}", panic_site(e)), format!("formula {:?} dc={} dr={}: {}", text, dc, dr, e)),
            }
        }
        // path 4: the same translation applied to cells of a shared formula loaded from a file (master and children)
        if !wide && !feats.contains("external-ref") && rng.chance(1, 6) {
            o.count("path.shared-formula-from-file", 1);
            let (bc, br, bw, bh) = (40u32, rng.range(1, 30), rng.range(1, 3), rng.range(2, 4));
            let loaded = guard(|| -> Result<Spreadsheet, String> {
                let mut book = crate::gen::new_book(&sheets);
                for dr in 0..bh {
                    for dc in 0..bw {
                        book.get_sheet_mut(&0).unwrap().get_cell_mut((bc + dc, br + dr)).set_formula(render(&translate_ast(&ast, dc as i64, dr as i64)));
                    }
                }
                let bytes = crate::dump::save(&book, false)?;
                crate::dump::load(&crate::c08::to_shared_block(&bytes, 0, bc, br, bw, bh)?)
            });
            match loaded {
                Ok(Ok(book)) => {
                    for dr in 0..bh {
                        for dc in 0..bw {
                            let member = translate_ast(&ast, dc as i64, dr as i64);
                            let (mc, mr) = (rng.irange(-3, 3), rng.irange(-3, 3));
                            let exp_ast = translate_ast(&member, mc, mr);
                            let (exp, alt) = (render(&exp_ast), render(&crate::c08::strip_referr_prefix(&exp_ast)));
                            let (c, r) = (bc + dc, br + dr);
                            let target = ((c as i64 + mc).max(1) as u32, (r as i64 + mr).max(1) as u32);
                            if (target.0 as i64, target.1 as i64) != (c as i64 + mc, r as i64 + mr) {
                                continue;
                            }
                            o.observations += 1;
                            let got = guard(|| {
                                let mut cell = book.get_sheet(&0).unwrap().get_cell((c, r)).unwrap().clone();
                                let before = cell.get_formula().to_string();
                                cell.set_coordinate(target);
                                (before, cell.get_formula().to_string())
                            });
                            match got {
                                Ok((before, _)) if norm(&before) != norm(&render(&member)) => {
                                    o.inconclusive = Some(format!("shared block does not load as built: {:?} vs {:?}", before, render(&member)));
                                    return o;
                                }
                                Ok((_, g)) if norm(&g) == norm(&exp) || norm(&g) == norm(&alt) => {}
                                Ok((before, g)) => {
                                    o.div("translate:shared-formula-member", format!("{} of a loaded shared formula {:?} moved by (dc={}, dr={}): expected {:?} got {:?}", if dc == 0 && dr == 0 { "master" } else { "child" }, before, mc, mr, exp, g));
                                    return o;
                                }
                                Err(e) => {
                                    o.div(format!("translate:panic:{}", panic_site(&e)), format!("shared formula member {:?}: {}", render(&member), e));
                                    return o;
                                }
                            }
                        }
                    }
                }
                Ok(Err(e)) | Err(e) => o.inconclusive = Some(format!("cannot build the shared-formula file: {}", e)),
            }
        }
        o
    });
    finish(args, agg, vec![]);
}
