//! C13: saving to a path is all-or-nothing under I/O failure.
//! Child-process commands used by monitors/c13_check.py (which injects the faults at the OS boundary):
//!   c13save  one save through a path API, prints "RESULT ok" / "RESULT err <msg>" (a panic exits with 101)
//!   c13loop  alternates saves of two distinguishable workbooks to one destination (kill / observer targets)
//! and the in-process fault enumeration over caller-supplied sinks:
//!   c13sink  FaultyWriter failing at every call index, with and without partial progress
use crate::common::*;
use std::io::{Seek, SeekFrom, Write};
use umya_spreadsheet::*;

/// deterministic workbook for (size class, variant); no construct whose serialisation depends on hash order
pub fn workbook(size: &str, variant: &str) -> Spreadsheet {
    let mut book = new_file();
    let n = match size {
        "tiny" => 1,
        "small" => 12,
        "edge" => 330, // output lands right around the 8 KiB BufWriter capacity
        "large" => 4000,
        _ => 60,
    };
    let ws = book.get_sheet_mut(&0).unwrap();
    for i in 0..n {
        let c = ws.get_cell_mut((1 + (i % 6) as u32, 1 + (i / 6) as u32));
        if i % 3 == 0 {
            c.set_value_number(i as f64 + 0.25);
        } else {
            c.set_value_string(format!("{}-{}-{}", variant, size, i * 7919 % 10007));
        }
    }
    book
}

fn save_path(api: &str, book: &Spreadsheet, path: &std::path::Path) -> Result<(), String> {
    match api {
        "xlsx" => writer::xlsx::write(book, path).map_err(|e| format!("{:?}", e)),
        "xlsx_light" => writer::xlsx::write_light(book, path).map_err(|e| format!("{:?}", e)),
        "csv" => writer::csv::write(book, path, None).map_err(|e| format!("{:?}", e)),
        "password" => writer::xlsx::write_with_password(book, path, "pw-c13").map_err(|e| format!("{:?}", e)),
        "password_light" => writer::xlsx::write_with_password_light(book, path, "pw-c13").map_err(|e| format!("{:?}", e)),
        other => Err(format!("unknown api {}", other)),
    }
}

pub fn save_cmd(args: &Args) {
    // the default panic hook stays quiet; a panic must surface as exit status 101
    let api = args.get("api").unwrap_or("xlsx").to_string();
    let book = workbook(args.get("size").unwrap_or("small"), args.get("variant").unwrap_or("A"));
    let path = std::path::PathBuf::from(args.get("path").expect("--path"));
    match save_path(&api, &book, &path) {
        Ok(()) => println!("RESULT ok"),
        Err(e) => println!("RESULT err {}", e.replace('\n', " ")),
    }
}

pub fn loop_cmd(args: &Args) {
    let api = args.get("api").unwrap_or("xlsx").to_string();
    let size = args.get("size").unwrap_or("small").to_string();
    let path = std::path::PathBuf::from(args.get("path").expect("--path"));
    let count = args.get_u64("count", 1000);
    let a = workbook(&size, "A");
    let b = workbook(&size, "B");
    let out = std::io::stdout();
    for i in 0..count {
        let (book, v) = if i % 2 == 0 { (&a, "A") } else { (&b, "B") };
        let r = save_path(&api, book, &path);
        let mut o = out.lock();
        let _ = writeln!(o, "DONE {} {} {}", i, v, if r.is_ok() { "ok" } else { "err" });
        let _ = o.flush();
    }
}

/// sink that fails at the n-th write call, optionally after accepting a part of that buffer
struct FaultyWriter {
    inner: std::io::Cursor<Vec<u8>>,
    calls: usize,
    fail_at: usize,
    partial: bool,
    kind: std::io::ErrorKind,
    failed: bool,
}
impl Write for FaultyWriter {
    fn write(&mut self, buf: &[u8]) -> std::io::Result<usize> {
        let i = self.calls;
        self.calls += 1;
        if i == self.fail_at && self.partial && buf.len() > 1 {
            // short write first; the failure comes with the next call
            self.fail_at += 1;
            return self.inner.write(&buf[..buf.len() / 2]);
        }
        if i >= self.fail_at {
            self.failed = true;
            return Err(std::io::Error::new(self.kind, "injected sink failure"));
        }
        self.inner.write(buf)
    }
    fn flush(&mut self) -> std::io::Result<()> {
        if self.failed {
            return Err(std::io::Error::new(self.kind, "injected sink failure (flush)"));
        }
        Ok(())
    }
}
impl Seek for FaultyWriter {
    fn seek(&mut self, pos: SeekFrom) -> std::io::Result<u64> {
        self.inner.seek(pos)
    }
}

pub fn sink_cmd(args: &Args) {
    // one case = (api, size); every call index is enumerated inside the case
    let apis = ["write_writer", "write_writer_light", "csv_write_writer"];
    let sizes = ["tiny", "small", "edge", "large"];
    let ncases = (apis.len() * sizes.len()) as u64;
    let a2 = Args { cases: ncases, ..Args::parse() };
    let agg = run_cases(&a2, |_seed, k| {
        let mut o = Outcome::default();
        let api = apis[(k as usize) % apis.len()];
        let size = sizes[(k as usize) / apis.len()];
        let book = workbook(size, "A");
        let run = |w: &mut FaultyWriter| -> Result<Result<(), String>, String> {
            guard(|| match api {
                "write_writer" => writer::xlsx::write_writer(&book, w).map_err(|e| format!("{:?}", e)),
                "write_writer_light" => writer::xlsx::write_writer_light(&book, w).map_err(|e| format!("{:?}", e)),
                _ => writer::csv::write_writer(&book, w, &CsvWriterOption::default()).map_err(|e| format!("{:?}", e)),
            })
        };
        // healthy run: how many write calls does a complete save make?
        let mut healthy = FaultyWriter { inner: std::io::Cursor::new(vec![]), calls: 0, fail_at: usize::MAX, partial: false, kind: std::io::ErrorKind::Other, failed: false };
        let h = run(&mut healthy);
        if !matches!(h, Ok(Ok(()))) {
            o.div(format!("healthy-sink-save-failed:{}", api), format!("{:?}", h));
            return o;
        }
        let total_calls = healthy.calls;
        let reference = healthy.inner.into_inner();
        o.count("write-calls-of-healthy-save", total_calls as u64);
        let max_points = if a2.tier == "thorough" { usize::MAX } else { 400 };
        let step = (total_calls / max_points).max(1);
        let mut i = 0;
        while i < total_calls {
            for partial in [false, true] {
                for kind in [std::io::ErrorKind::Other, std::io::ErrorKind::WriteZero] {
                    let mut w = FaultyWriter { inner: std::io::Cursor::new(vec![]), calls: 0, fail_at: i, partial, kind, failed: false };
                    let r = run(&mut w);
                    o.observations += 1;
                    o.count("fault-points", 1);
                    match r {
                        Err(e) => o.div(format!("sink-failure-panics:{}:{}", api, panic_site(&e)), format!("{} size {} failing write call {} of {} (partial={}): {}", api, size, i, total_calls, partial, e)),
                        Ok(Ok(())) => {
                            // success may only be reported if everything was accepted by the sink
                            if w.failed || w.inner.get_ref() != &reference {
                                o.div(format!("sink-failure-swallowed:{}", api), format!("{} size {} failing write call {} of {} (partial={}): returned Ok but the sink holds {} of {} bytes", api, size, i, total_calls, partial, w.inner.get_ref().len(), reference.len()));
                            }
                        }
                        Ok(Err(_)) => {}
                    }
                }
            }
            i += step;
        }
        o.nontrivial = true;
        o.hash = k;
        o.descr = jo(vec![("api", js(api)), ("size", js(size)), ("write_calls", J::I(total_calls as i64))]);
        o.count("distinct_inputs", o.observations);
        o
    });
    finish(&a2, agg, vec![]);
}
