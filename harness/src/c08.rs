//! C08: references keep their target cells across row/column insert and remove.
//! Formulas are generated from an AST; the expected text after each workbook-level edit is
//! rendered from an AST-level shifter, never derived from text. Workbooks are feature-segregated:
//! all formulas of one workbook are drawn from the base grammar plus at most two extra features.
use crate::common::*;
use crate::fast::*;
use std::collections::BTreeSet;


pub const BASE: &[&str] = &["abs", "range", "sheet-qualified", "sci", "str-punct", "blank-around-op", "blank-after-comma", "unary-minus", "percent", "func-noargs", "intersection", "union"];
pub const EXTRAS: &[&str] = &[
    "wholecol", "wholerow", "sheet-quoted", "sheet-apostrophe", "str-dquote", "str-squote", "str-bracket", "errlit", "name", "name-reflike", "array", "structured-ref", "external-ref", "unary-plus", "deleted-target-allowed",
];
const W: u32 = 30;
const H: u32 = 40;

pub fn profile(rng: &mut Rng) -> (BTreeSet<&'static str>, Vec<&'static str>) {
    let mut allow: BTreeSet<&'static str> = BASE.iter().cloned().collect();
    let mut extras = vec![];
    let n = match rng.below(20) {
        0..=4 => 0,
        5..=12 => 1,
        13..=17 => 2,
        18 => 3,
        _ => 4,
    };
    while extras.len() < n {
        let e = *rng.pick(EXTRAS);
        if !extras.contains(&e) {
            extras.push(e);
            allow.insert(e);
            // dependent features
            if e == "sheet-apostrophe" {
                allow.insert("sheet-quoted");
            }
            if e == "name-reflike" {
                allow.insert("name");
            }
        }
    }
    (allow, extras)
}

struct Placed {
    sheet: usize,
    col: u32,
    row: u32,
    ast: Ast,
    alive: bool,
}
struct NameRec {
    sheet: usize, // sheet that holds the name
    name: String,
    ast: Ast, // a single Ref
    /// a second area (the name is then a union "first,second"; the areas may lie on different sheets)
    second: Option<Ast>,
}

fn used_lines(items: &[&Ast], own: &dyn Fn(usize) -> String, owners: &[usize], edited: &str, is_row: bool) -> BTreeSet<u32> {
    let mut s = BTreeSet::new();
    for (a, o) in items.iter().zip(owners) {
        let mut v = vec![];
        refs_of(a, &mut v);
        let own_name = own(*o);
        for r in v {
            if r.sheet.as_deref().unwrap_or(&own_name) != edited {
                continue;
            }
            match &r.kind {
                RefKind::Cell(c) => {
                    s.insert(if is_row { c.row } else { c.col });
                }
                RefKind::Range(a, b) => {
                    s.insert(if is_row { a.row } else { a.col });
                    s.insert(if is_row { b.row } else { b.col });
                }
                RefKind::Cols(a, _, b, _) => {
                    if !is_row {
                        s.insert(*a);
                        s.insert(*b);
                    }
                }
                RefKind::Rows(a, _, b, _) => {
                    if is_row {
                        s.insert(*a);
                        s.insert(*b);
                    }
                }
            }
        }
    }
    s
}

pub fn run(args: &Args) {
    let agg = run_cases(args, |seed, case| {
        let mut o = Outcome::default();
        let mut rng = Rng::new(seed, case);
        let (allow, extras) = profile(&mut rng);
        for e in &extras {
            o.feat(e);
        }
        if extras.is_empty() {
            o.feat("base-grammar-only");
        }
        let mut sheets: Vec<String> = vec!["Sheet1".into(), "Data2".into()];
        if allow.contains("sheet-quoted") {
            sheets.push((*rng.pick(&["My Sheet", "Q&A", "2024", "A1", "x-y", "日本", "US$", "Q#1", "a!b"])).to_string());
        }
        if allow.contains("sheet-apostrophe") {
            sheets.push("it's".to_string());
        }
        if sheets.len() < 3 {
            sheets.push("Third".into());
        }
        let mut book = crate::gen::new_book(&sheets);
        let cfg = GenCfg { sheets: &sheets, allow: &allow, w: W, h: H, wide: false };
        let mut placed: Vec<Placed> = vec![];
        let mut names: Vec<NameRec> = vec![];
        let mut charts: Vec<(usize, Vec<Ast>)> = vec![];
        let mut hist: Vec<String> = vec![];
        let setup = guard(|| {
            for _ in 0..rng.range(3, 8) {
                let si = rng.below(sheets.len() as u64) as usize;
                // formula cells live right of / below the referenced window, so references never point at them
                let (c, r) = (rng.range(W + 2, W + 6), rng.range(1, H));
                if placed.iter().any(|p| p.sheet == si && p.col == c && p.row == r) {
                    continue;
                }
                let depth = rng.range(1, 4);
                let ast = gen(&mut rng, depth, &cfg);
                book.get_sheet_mut(&si).unwrap().get_cell_mut((c, r)).set_formula(render(&ast));
                placed.push(Placed { sheet: si, col: c, row: r, ast, alive: true });
            }
            for i in 0..rng.range(0, 3) {
                let si = rng.below(sheets.len() as u64) as usize;
                let ti = rng.below(sheets.len() as u64) as usize;
                let mut r = gen_ref(&mut rng, &cfg);
                if matches!(r.kind, RefKind::Cols(..) | RefKind::Rows(..)) {
                    continue;
                }
                // a defined name always carries a sheet qualifier
                if r.sheet.is_none() {
                    if needs_quote(&sheets[ti]) && !allow.contains("sheet-quoted") {
                        continue;
                    }
                    r.sheet = Some(sheets[ti].clone());
                }
                let name = format!("Name_{}", i);
                let mut ast = Ast::Ref(r);
                // a third of the names are unions of two areas, possibly on different sheets, in either order
                let mut second = None;
                if rng.chance(1, 3) {
                    let mut r2 = gen_ref(&mut rng, &cfg);
                    let t2 = rng.below(sheets.len() as u64) as usize;
                    let usable = !matches!(r2.kind, RefKind::Cols(..) | RefKind::Rows(..)) && (r2.sheet.is_some() || !needs_quote(&sheets[t2]) || allow.contains("sheet-quoted"));
                    if usable {
                        if r2.sheet.is_none() {
                            r2.sheet = Some(sheets[t2].clone());
                        }
                        let mut a2 = Ast::Ref(r2);
                        if rng.chance(1, 2) {
                            std::mem::swap(&mut ast, &mut a2);
                        }
                        second = Some(a2);
                    }
                }
                let text = match &second {
                    Some(a2) => format!("{},{}", render(&ast), render(a2)),
                    None => render(&ast),
                };
                let _ = book.get_sheet_mut(&si).unwrap().add_defined_name(name.clone(), text);
                names.push(NameRec { sheet: si, name, ast, second });
            }
            // chart series (always sheet-qualified absolute ranges, as Excel writes them); the chart itself sits far away
            if rng.chance(1, 3) {
                let si = rng.below(sheets.len() as u64) as usize;
                let mut series: Vec<Ast> = vec![];
                for _ in 0..2 {
                    let ti = rng.below(sheets.len() as u64) as usize;
                    if needs_quote(&sheets[ti]) && !allow.contains("sheet-quoted") {
                        continue;
                    }
                    let c = rng.range(1, W);
                    let r1 = rng.range(1, H - 4);
                    let a = CellRef { col: c, row: r1, lc: true, lr: true };
                    let b = CellRef { col: c, row: r1 + rng.range(1, 4), lc: true, lr: true };
                    series.push(Ast::Ref(Ref { sheet: Some(sheets[ti].clone()), kind: RefKind::Range(a, b) }));
                }
                if !series.is_empty() {
                    let mut from = umya_spreadsheet::structs::drawing::spreadsheet::MarkerType::default();
                    let mut to = umya_spreadsheet::structs::drawing::spreadsheet::MarkerType::default();
                    from.set_coordinate("BA60");
                    to.set_coordinate("BF70");
                    let texts: Vec<String> = series.iter().map(render).collect();
                    let mut chart = umya_spreadsheet::Chart::default();
                    if texts.len() == 2 && rng.chance(1, 2) {
                        // a combination chart: columns for the first series and a line for the second, in one plot area
                        chart.new_chart(umya_spreadsheet::ChartType::BarChart, from.clone(), to.clone(), vec![texts[0].as_str()]);
                        let mut line_only = umya_spreadsheet::Chart::default();
                        line_only.new_chart(umya_spreadsheet::ChartType::LineChart, from, to, vec![texts[1].as_str()]);
                        let line = line_only.get_plot_area_mut().get_line_chart().unwrap().clone();
                        chart.get_plot_area_mut().set_line_chart(line);
                        o.feat("combination-chart");
                    } else {
                        chart.new_chart(umya_spreadsheet::ChartType::LineChart, from, to, texts.iter().map(|s| s.as_str()).collect());
                    }
                    book.get_sheet_mut(&si).unwrap().add_chart(chart);
                    charts.push((si, series));
                }
            }
        });
        if let Err(e) = setup {
            o.div(format!("setup-panicked:{}", panic_site(&e)), format!("{}; formulas {:?}", e, placed.iter().map(|p| render(&p.ast)).collect::<Vec<_>>()));
            return o;
        }
        // a quarter of the workbooks are edited after a save / load cycle, as a user's file would be; half of those carry a
        // shared-formula block (master + translated children), which only exists in loaded files
        if rng.chance(1, 4) {
            o.feat("loaded-from-file");
            let mut block: Vec<(usize, u32, u32)> = vec![];
            // (external references are not translated by our reference translation, so they stay out of the block)
            let with_shared = rng.chance(1, 2) && !allow.contains("external-ref");
            let (bsi, bc, br) = (rng.below(sheets.len() as u64) as usize, W + 10, rng.range(1, H - 6));
            let (bw, bh) = (rng.range(1, 3), rng.range(2, 5));
            if with_shared {
                let depth = rng.range(1, 3);
                let mut master = gen(&mut rng, depth, &cfg);
                // half of the blocks also refer into another sheet: edits of that sheet separate the members' targets
                if rng.chance(1, 2) {
                    let ti = (bsi + 1 + rng.below(sheets.len() as u64 - 1) as usize) % sheets.len();
                    if !needs_quote(&sheets[ti]) || allow.contains("sheet-quoted") {
                        let far = Ref { sheet: Some(sheets[ti].clone()), kind: RefKind::Cell(CellRef { col: rng.range(1, W - 3), row: rng.range(1, H - 6), lc: false, lr: false }) };
                        master = Ast::Bin(Box::new(master), "+", Box::new(Ast::Ref(far)), false);
                    }
                }
                for dr in 0..bh {
                    for dc in 0..bw {
                        let ast = translate_ast(&master, dc as i64, dr as i64);
                        let r = guard(|| book.get_sheet_mut(&bsi).unwrap().get_cell_mut((bc + dc, br + dr)).set_formula(render(&ast)).get_formula().to_string());
                        if r.is_err() {
                            o.inconclusive = Some("cannot place the shared block".into());
                            return o;
                        }
                        placed.push(Placed { sheet: bsi, col: bc + dc, row: br + dr, ast, alive: true });
                        block.push((bsi, bc + dc, br + dr));
                    }
                }
            }
            let reloaded = crate::dump::save(&book, false).and_then(|bytes| {
                if block.is_empty() {
                    return crate::dump::load(&bytes);
                }
                crate::dump::load(&to_shared_block(&bytes, bsi, bc, br, bw, bh)?)
            });
            match reloaded {
                Ok(b) => {
                    book = b;
                    if !block.is_empty() {
                        o.feat("shared-formula-block");
                        // the loaded block must show the formulas it was built from (C03's subject; a wrong start would poison the rest)
                        for pl in placed.iter().filter(|p| block.contains(&(p.sheet, p.col, p.row))) {
                            let got = book.get_sheet(&pl.sheet).and_then(|ws| ws.get_cell((pl.col, pl.row))).map(|c| c.get_formula().to_string()).unwrap_or_default();
                            if norm(&got) != norm(&render(&pl.ast)) {
                                o.inconclusive = Some(format!("shared block does not load as built: {:?} vs {:?}", got, render(&pl.ast)));
                                return o;
                            }
                        }
                    }
                }
                Err(e) => {
                    o.inconclusive = Some(format!("save / load cycle before the edits failed: {}", e));
                    return o;
                }
            }
        }
        // identity check right after set_formula (C09's subject, but a wrong start would poison the rest)
        let nedits = rng.range(1, 6);
        let mut feats_edit: BTreeSet<&'static str> = BTreeSet::new();
        'edits: for _ in 0..nedits {
            let ei = rng.below(sheets.len() as u64) as usize;
            let edited = sheets[ei].clone();
            let is_row = rng.chance(1, 2);
            let mut insert = rng.chance(1, 2);
            let span = if is_row { H } else { W };
            let mut p = match rng.below(4) {
                0 => 1,
                _ => rng.range(1, span),
            };
            let mut n = rng.range(1, 3);
            let want_hit = allow.contains("deleted-target-allowed");
            if want_hit && rng.chance(2, 3) {
                // aim at the reference corners: band starting at / ending at / just before a line some reference uses
                let items: Vec<&Ast> = placed.iter().filter(|p| p.alive).map(|p| &p.ast).chain(names.iter().map(|n| &n.ast)).collect();
                let owners: Vec<usize> = placed.iter().filter(|p| p.alive).map(|p| p.sheet).chain(names.iter().map(|n| n.sheet)).collect();
                let used: Vec<u32> = used_lines(&items, &|i| sheets[i].clone(), &owners, &edited, is_row).into_iter().collect();
                if !used.is_empty() {
                    let line = *rng.pick(&used);
                    p = match rng.below(4) {
                        0 => line,
                        1 => (line + 1).saturating_sub(n).max(1),
                        2 => line + 1,
                        _ => line.saturating_sub(1).max(1),
                    };
                }
            }
            if !insert && !want_hit {
                // base behaviour: the removed band must not contain any reference corner
                let items: Vec<&Ast> = placed.iter().filter(|p| p.alive).map(|p| &p.ast).chain(names.iter().map(|n| &n.ast)).collect();
                let owners: Vec<usize> = placed.iter().filter(|p| p.alive).map(|p| p.sheet).chain(names.iter().map(|n| n.sheet)).collect();
                let used = used_lines(&items, &|i| sheets[i].clone(), &owners, &edited, is_row);
                let mut found = false;
                for _ in 0..20 {
                    let hit = (p..p + n).any(|x| used.contains(&x));
                    if !hit {
                        found = true;
                        break;
                    }
                    p = rng.range(1, span + 3);
                    n = rng.range(1, 2);
                }
                if !found {
                    insert = true;
                }
            }
            let e = Edit { is_row, insert, p, n };
            // in-range only: an insert must not push a reference off the grid (cannot happen in this window)
            let desc = format!("{}_{} {} p={} n={}", if insert { "insert" } else { "remove" }, if is_row { "row" } else { "col" }, edited, p, n);
            hist.push(desc.clone());
            o.count(&format!("edit.{}", desc.split(' ').next().unwrap()), 1);
            if std::env::var("UVH_DEBUG").is_ok() {
                for pl in placed.iter().filter(|p| p.alive) {
                    let got = book.get_sheet(&pl.sheet).and_then(|ws| ws.get_cell((pl.col, pl.row))).map(|c| c.get_formula().to_string()).unwrap_or_default();
                    eprintln!("DEBUG before [{}] {}!({},{}) model {:?} library {:?}", desc, sheets[pl.sheet], pl.col, pl.row, render(&pl.ast), got);
                }
            }
            let res = guard(|| match (is_row, insert) {
                (true, true) => book.insert_new_row(&edited, &p, &n),
                (true, false) => book.remove_row(&edited, &p, &n),
                (false, true) => book.insert_new_column_by_index(&edited, &p, &n),
                (false, false) => book.remove_column_by_index(&edited, &p, &n),
            });
            if let Err(err) = res {
                o.div(format!("edit-panicked:{}", panic_site(&err)), format!("{} panicked: {}; formulas {:?}; history {:?}", desc, err, placed.iter().filter(|p| p.alive).map(|p| render(&p.ast)).collect::<Vec<_>>(), hist));
                break 'edits;
            }
            // advance the model
            for pl in placed.iter_mut().filter(|p| p.alive) {
                let own = sheets[pl.sheet].clone();
                let before = pl.ast.clone();
                pl.ast = shift_ast(&pl.ast, &own, &edited, &e);
                if render(&pl.ast).contains("#REF!") && !render(&before).contains("#REF!") {
                    feats_edit.insert("deleted-target");
                }
                if pl.sheet == ei {
                    let moved = if is_row { map1(pl.row, &e).map(|r| (pl.col, r)) } else { map1(pl.col, &e).map(|c| (c, pl.row)) };
                    match moved {
                        Some((c, r)) => {
                            pl.col = c;
                            pl.row = r;
                        }
                        None => pl.alive = false,
                    }
                }
            }
            for (csi, series) in charts.iter_mut() {
                let own = sheets[*csi].clone();
                for a in series.iter_mut() {
                    *a = shift_ast(a, &own, &edited, &e);
                }
            }
            // a name (or a union with an area) whose target was deleted is not followed any further
            names.retain(|nm| !render(&nm.ast).contains("#REF!") && !nm.second.as_ref().map(|a| render(a).contains("#REF!")).unwrap_or(false));
            for nm in names.iter_mut() {
                let own = sheets[nm.sheet].clone();
                nm.ast = shift_ast(&nm.ast, &own, &edited, &e);
                nm.second = nm.second.as_ref().map(|a| shift_ast(a, &own, &edited, &e));
            }
            // observe
            for pl in placed.iter().filter(|p| p.alive) {
                o.observations += 1;
                let exp = render(&pl.ast);
                let got = guard(|| book.get_sheet(&pl.sheet).unwrap().get_cell((pl.col, pl.row)).map(|x| x.get_formula().to_string()));
                let got = match got {
                    Ok(Some(g)) => g,
                    Ok(None) => "<formula cell missing>".to_string(),
                    Err(err) => format!("<observer panic {}>", err),
                };
                let mut exps = vec![norm(&exp)];
                // "Sheet!#REF!" and "#REF!" are both accepted for a deleted qualified target
                let unq = render(&map_refs(&pl.ast, &|r| Ast::Ref(r.clone())));
                let _ = unq;
                let alt = render(&strip_referr_prefix(&pl.ast));
                exps.push(norm(&alt));
                if !exps.contains(&norm(&got)) {
                    let mut f = BTreeSet::new();
                    features(&pl.ast, &mut f);
                    let kind = if got.starts_with('<') { "missing-or-panic" } else { "formula-text" };
                    o.div(format!("{}:{}", kind, desc.split(' ').next().unwrap()), format!("on {} (formula on {}): expected {:?} got {:?}; features {:?}; history {:?}", edited, sheets[pl.sheet], exp, got, f, hist));
                    break 'edits;
                }
            }
            for (csi, series) in charts.iter() {
                let got: Result<Vec<String>, String> = guard(|| {
                    let ws = book.get_sheet_mut(csi).unwrap();
                    match ws.get_chart_collection_mut().get_mut(0) {
                        Some(ch) => {
                            // every chart kind of the plot area, columns first
                            let pa = ch.get_plot_area_mut();
                            let refs = |list: &umya_spreadsheet::structs::drawing::charts::AreaChartSeriesList| -> Vec<String> { list.get_area_chart_series().iter().map(|s| s.get_values().map(|v| v.get_number_reference().get_formula().get_address_str()).unwrap_or_default()).collect() };
                            let mut v = vec![];
                            if let Some(b) = pa.get_bar_chart() {
                                v.extend(refs(b.get_area_chart_series_list()));
                            }
                            if let Some(l) = pa.get_line_chart() {
                                v.extend(refs(l.get_area_chart_series_list()));
                            }
                            v
                        }
                        None => vec!["<chart missing>".to_string()],
                    }
                });
                for (j, a) in series.iter().enumerate() {
                    o.observations += 1;
                    o.count("chart-series-observations", 1);
                    let exp = render(a);
                    if exp.contains("#REF!") {
                        continue; // a series whose whole range was removed: any non-designating outcome is accepted
                    }
                    let g = match &got {
                        Ok(v) => v.get(j).cloned().unwrap_or_else(|| "<series missing>".into()),
                        Err(err) => format!("<observer panic {}>", err),
                    };
                    if canon_qualified(&g) != canon_qualified(&exp) {
                        o.div(format!("chart-series:{}", desc.split(' ').next().unwrap()), format!("series {} of the chart on {} after {}: expected {:?} got {:?}; history {:?}", j, sheets[*csi], desc, exp, g, hist));
                        break 'edits;
                    }
                }
            }
            for nm in names.iter() {
                o.observations += 1;
                o.count("defined-name-observations", 1);
                let exp = render(&nm.ast);
                // whichever collection holds it: names are re-homed between the workbook and the sheets when a file is loaded
                let got = guard(|| {
                    let _ = nm.sheet;
                    book.get_defined_names().iter().chain(book.get_sheet_collection_no_check().iter().flat_map(|ws| ws.get_defined_names().iter())).find(|d| d.get_name() == nm.name).map(|d| d.get_address())
                });
                let got = match got {
                    Ok(Some(g)) => g,
                    Ok(None) => "<name missing>".to_string(),
                    Err(err) => format!("<observer panic {}>", err),
                };
                let alt = render(&strip_referr_prefix(&nm.ast));
                if let Some(a2) = &nm.second {
                    // union of two areas: every area follows its own sheet; once an area was deleted the outcome is not modelled
                    let exp2 = render(a2);
                    o.count("defined-name-observations.union", 1);
                    if exp.contains("#REF!") || exp2.contains("#REF!") {
                        continue;
                    }
                    let areas: Vec<String> = got.split(',').map(|x| canon_qualified(x)).collect();
                    if areas != vec![canon_qualified(&exp), canon_qualified(&exp2)] {
                        o.div(format!("defined-name-union:{}", desc.split(' ').next().unwrap()), format!("name {} after {}: expected {:?} got {:?}; history {:?}", nm.name, desc, format!("{},{}", exp, exp2), got, hist));
                        break 'edits;
                    }
                    continue;
                }
                // a name whose whole target was removed may also keep an empty refers-to: it designates no cell
                let deleted_ok = exp.contains("#REF!") && (got.is_empty() || got == "<name missing>");
                if !deleted_ok && canon_qualified(&got) != canon_qualified(&exp) && canon_qualified(&got) != canon_qualified(&alt) {
                    o.div(format!("defined-name:{}", desc.split(' ').next().unwrap()), format!("name {} after {}: expected {:?} got {:?}; history {:?}", nm.name, desc, exp, got, hist));
                    break 'edits;
                }
            }
        }
        let _ = &names;
        // what the edits produced must also be what a save persists: the same observation on the saved and reloaded workbook
        if o.divs.is_empty() && !hist.is_empty() && (o.features.contains("loaded-from-file") || rng.chance(1, 4)) {
            o.count("save-reload-observations", 1);
            match crate::dump::save(&book, false).and_then(|b| crate::dump::load(&b)) {
                Ok(re) => {
                    for pl in placed.iter().filter(|p| p.alive) {
                        o.observations += 1;
                        let exp = render(&pl.ast);
                        let alt = render(&strip_referr_prefix(&pl.ast));
                        let got = guard(|| re.get_sheet(&pl.sheet).unwrap().get_cell((pl.col, pl.row)).map(|x| x.get_formula().to_string())).ok().flatten().unwrap_or_else(|| "<formula cell missing>".into());
                        if norm(&got) != norm(&exp) && norm(&got) != norm(&alt) {
                            let mut f = BTreeSet::new();
                            features(&pl.ast, &mut f);
                            o.div("formula-text-after-save-and-reload", format!("formula on {} at ({},{}): the edited workbook shows {:?}, the saved file reloads as {:?}; features {:?}; history {:?}", sheets[pl.sheet], pl.col, pl.row, exp, got, f, hist));
                            break;
                        }
                    }
                }
                Err(e) => o.div(format!("save-after-edits-failed:{}", panic_site(&e)), format!("{}; history {:?}", e, hist)),
            }
        }
        o.count("charts", charts.len() as u64);
        for f in feats_edit {
            o.feat(f);
        }
        let mut fs = BTreeSet::new();
        for pl in &placed {
            features(&pl.ast, &mut fs);
        }
        for f in &fs {
            o.count(&format!("feature.{}", f), 1);
        }
        o.count("formulas", placed.len() as u64);
        o.count("edits", hist.len() as u64);
        o.nontrivial = !placed.is_empty() && !hist.is_empty();
        o.hash = fnv(&format!("{:?}{:?}", placed.iter().map(|p| render(&p.ast)).collect::<Vec<_>>(), hist));
        o.descr = jo(vec![("formulas_after", J::A(placed.iter().take(4).map(|p| js(render(&p.ast))).collect())), ("history", J::A(hist.iter().map(js).collect()))]);
        o
    });
    finish(args, agg, vec![]);
}

/// Rewrites the formulas of the block (bc, br) .. (bc+bw-1, br+bh-1) on sheet `si` of a saved workbook as one shared
/// formula the way Excel stores it: text on the first cell, `<f t="shared" si=".."/>` on the others.
pub fn to_shared_block(bytes: &[u8], si: usize, bc: u32, br: u32, bw: u32, bh: u32) -> Result<Vec<u8>, String> {
    let mut parts = crate::zipx::all_parts(bytes)?;
    let pname = format!("xl/worksheets/sheet{}.xml", si + 1);
    let mut xml = String::from_utf8(parts.get(&pname).cloned().ok_or("sheet part missing")?).map_err(|e| e.to_string())?;
    let a1 = |c: u32, r: u32| umya_spreadsheet::helper::coordinate::coordinate_from_index(&c, &r);
    let reference = format!("{}:{}", a1(bc, br), a1(bc + bw - 1, br + bh - 1));
    let mut first = true;
    for r in br..br + bh {
        for c in bc..bc + bw {
            let tag = format!("<c r=\"{}\"", a1(c, r));
            let at = xml.find(&tag).ok_or(format!("cell {} not in the sheet part", a1(c, r)))?;
            let end_c = at + xml[at..].find("</c>").ok_or("unterminated cell")?;
            let f0 = at + xml[at..end_c].find("<f>").ok_or("cell without <f>")?;
            let f1 = f0 + xml[f0..end_c].find("</f>").ok_or("unterminated <f>")? + 4;
            let text = xml[f0 + 3..f1 - 4].to_string();
            let repl = if first { format!("<f t=\"shared\" ref=\"{}\" si=\"7\">{}</f>", reference, text) } else { "<f t=\"shared\" si=\"7\"/>".to_string() };
            first = false;
            xml.replace_range(f0..f1, &repl);
        }
    }
    parts.insert(pname, xml.into_bytes());
    crate::zipx::build(&parts)
}

pub fn strip_referr_prefix(a: &Ast) -> Ast {
    fn go(a: &Ast) -> Ast {
        let m = |x: &Ast| Box::new(go(x));
        match a {
            Ast::RefErr(_) => Ast::RefErr(None),
            Ast::Bin(l, op, r, sp) => Ast::Bin(m(l), op, m(r), *sp),
            Ast::Un(op, x) => Ast::Un(op, m(x)),
            Ast::Pct(x) => Ast::Pct(m(x)),
            Ast::Paren(x) => Ast::Paren(m(x)),
            Ast::Func(n, args, sp) => Ast::Func(n, args.iter().map(go).collect(), *sp),
            Ast::Isect(l, r) => Ast::Isect(m(l), m(r)),
            Ast::Union(v) => Ast::Union(v.iter().map(go).collect()),
            Ast::Array(rows) => Ast::Array(rows.iter().map(|r| r.iter().map(go).collect()).collect()),
            other => other.clone(),
        }
    }
    go(a)
}
