//! C16: concurrent saves of a workbook or its clones equal sequential saves.
//! (a) controlled schedules: the cfg(umya_verif) hooks park every saver before each shared-string
//!     registration, before the table dump and at save begin/end; a scheduler grants one step at a time.
//!     Exhaustive DFS over all interleavings for small configurations, seeded random schedules for larger ones.
//! (b) free-running stress of the same workload (also the entry point for the ThreadSanitizer / Miri builds).
//! Oracle: every output's text cells equal the solo save of that workbook; per-saver conservation law on the
//! hook log (the index handed out for a text maps to that text in the saver's own string table).
use crate::common::*;
use std::cell::Cell as StdCell;
use std::collections::{BTreeMap, BTreeSet};
use std::sync::{Arc, Condvar, Mutex};
use umya_spreadsheet::*;

thread_local! { static SAVER: StdCell<Option<usize>> = StdCell::new(None); }

#[derive(Default)]
struct St {
    waiting: Vec<bool>,
    done: Vec<bool>,
    granted: Option<usize>,
    log: Vec<(usize, &'static str, String, usize)>,
    controlled: bool,
}
pub struct Sched {
    m: Mutex<St>,
    cv: Condvar,
}

pub fn install_scheduler() -> Arc<Sched> {
    let sched = Arc::new(Sched { m: Mutex::new(St::default()), cv: Condvar::new() });
    let s = sched.clone();
    verif_hooks::set_hook(Some(Arc::new(move |tag, text, n| {
        let id = match SAVER.with(|c| c.get()) {
            Some(i) => i,
            None => return,
        };
        let mut st = s.m.lock().unwrap();
        if !st.controlled {
            return;
        }
        st.log.push((id, tag, text.to_string(), n));
        if tag == "sst.reg.done" {
            return;
        }
        // yield point: park until the scheduler grants this saver a step
        st.waiting[id] = true;
        s.cv.notify_all();
        let mut st = s.cv.wait_while(st, |st| st.granted != Some(id)).unwrap();
        st.granted = None;
        st.waiting[id] = false;
        s.cv.notify_all();
    })));
    sched
}

pub struct RunOut {
    /// saver granted at each scheduling step: the interleaving
    pub grants: Vec<usize>,
    pub choices: Vec<usize>,
    pub options: Vec<usize>,
    pub outs: Vec<Result<Vec<u8>, String>>,
    pub log: Vec<(usize, &'static str, String, usize)>,
    pub stuck: Option<String>,
}

/// run one schedule: `pick(step, ready)` chooses the index into the ready list
pub fn run_schedule(books: &[Arc<Spreadsheet>], light: bool, sched: &Arc<Sched>, pick: &mut dyn FnMut(usize, usize) -> usize) -> RunOut {
    let n = books.len();
    {
        let mut st = sched.m.lock().unwrap();
        *st = St { waiting: vec![false; n], done: vec![false; n], granted: None, log: vec![], controlled: true };
    }
    let mut hs = vec![];
    for (i, b) in books.iter().enumerate() {
        let b = b.clone();
        let s = sched.clone();
        hs.push(std::thread::spawn(move || {
            SAVER.with(|c| c.set(Some(i)));
            let mut cur = std::io::Cursor::new(Vec::new());
            let r = guard(|| if light { writer::xlsx::write_writer_light(&*b, &mut cur) } else { writer::xlsx::write_writer(&*b, &mut cur) });
            let mut st = s.m.lock().unwrap();
            st.done[i] = true;
            s.cv.notify_all();
            drop(st);
            match r {
                Ok(Ok(())) => Ok(cur.into_inner()),
                Ok(Err(e)) => Err(format!("save error: {:?}", e)),
                Err(e) => Err(format!("save panic: {}", e)),
            }
        }));
    }
    let mut choices = vec![];
    let mut grants = vec![];
    let mut options = vec![];
    let mut step = 0;
    let mut stuck = None;
    loop {
        let st = sched.m.lock().unwrap();
        let (mut st, timeout) = sched.cv.wait_timeout_while(st, std::time::Duration::from_secs(20), |st| !(0..n).all(|i| st.waiting[i] || st.done[i]) || st.granted.is_some()).unwrap();
        if timeout.timed_out() {
            // no quiescence: some saver is neither parked at a yield point nor finished
            stuck = Some(format!("no quiescence within 20 s: waiting={:?} done={:?} granted={:?} last events {:?}", st.waiting, st.done, st.granted, st.log.iter().rev().take(4).collect::<Vec<_>>()));
            st.controlled = false;
            st.granted = None;
            // release everybody so that the threads can be joined if they are able to run at all
            for i in 0..n {
                st.waiting[i] = false;
            }
            drop(st);
            // parked threads wait for granted == their id: grant them one by one until they are gone
            for _ in 0..2000 {
                let mut st = sched.m.lock().unwrap();
                if (0..n).all(|i| st.done[i]) {
                    break;
                }
                if st.granted.is_none() {
                    let next = (0..n).find(|&i| !st.done[i]);
                    st.granted = next;
                    sched.cv.notify_all();
                }
                drop(st);
                std::thread::sleep(std::time::Duration::from_millis(2));
            }
            break;
        }
        let ready: Vec<usize> = (0..n).filter(|&i| st.waiting[i] && !st.done[i]).collect();
        if ready.is_empty() {
            break;
        }
        let idx = pick(step, ready.len()).min(ready.len() - 1);
        options.push(ready.len());
        choices.push(idx);
        grants.push(ready[idx]);
        step += 1;
        st.granted = Some(ready[idx]);
        sched.cv.notify_all();
    }
    let mut outs = vec![];
    for h in hs {
        outs.push(h.join().unwrap_or_else(|_| Err("saver thread died".into())));
    }
    let log = std::mem::take(&mut sched.m.lock().unwrap().log);
    sched.m.lock().unwrap().controlled = false;
    RunOut { grants, choices, options, outs, log, stuck }
}

/// text cells of the first sheet and the shared string table, read from the file without library code
pub fn decode_texts(xlsx: &[u8]) -> Result<(Vec<(String, String)>, Vec<String>), String> {
    let sst_xml = crate::zipx::read_part(xlsx, "xl/sharedStrings.xml").unwrap_or_default();
    let mut sst = vec![];
    for si in sst_xml.split("<si>").skip(1) {
        let body = &si[..si.find("</si>").unwrap_or(si.len())];
        let mut text = String::new();
        for t in body.split("<t").skip(1) {
            if let (Some(a), Some(b)) = (t.find('>'), t.find("</t>")) {
                if a < b {
                    text.push_str(&t[a + 1..b]);
                }
            }
        }
        sst.push(text);
    }
    let sheet = crate::zipx::read_part(xlsx, "xl/worksheets/sheet1.xml")?;
    let mut cells = vec![];
    for c in sheet.split("<c ").skip(1) {
        let head = &c[..c.find('>').unwrap_or(c.len())];
        let r = head.split("r=\"").nth(1).and_then(|x| x.split('"').next()).unwrap_or("").to_string();
        if head.contains("t=\"s\"") {
            let v = c.split("<v>").nth(1).and_then(|x| x.split("</v>").next()).unwrap_or("");
            let idx: usize = v.parse().map_err(|_| format!("cell {} has a non-numeric string index {:?}", r, v))?;
            match sst.get(idx) {
                Some(t) => cells.push((r, t.clone())),
                None => return Err(format!("cell {} points at string index {} but the table has {} entries", r, idx, sst.len())),
            }
        } else if !head.contains(" t=\"") {
            // numeric cell: coordinate and value as written
            if let Some(v) = c.split("<v>").nth(1).and_then(|x| x.split("</v>").next()) {
                cells.push((r, format!("#{}", v)));
            }
        }
    }
    cells.sort();
    Ok((cells, sst))
}

/// lazily opened workbook: sheet 0 materialised (k strings, half of them new), sheet 1 never deserialized
fn lazy_book(k: usize, tag: &str) -> Spreadsheet {
    let mut src = new_file();
    src.new_sheet("Raw").unwrap();
    for i in 0..k {
        src.get_sheet_mut(&0).unwrap().get_cell_mut((1u32, (i + 1) as u32)).set_value_string(format!("A-{}", i));
        src.get_sheet_mut(&1).unwrap().get_cell_mut((1u32, (i + 1) as u32)).set_value_string(format!("R-{}", i));
    }
    add_chart(&mut src, k);
    let mut cur = std::io::Cursor::new(Vec::new());
    writer::xlsx::write_writer(&src, &mut cur).unwrap();
    cur.set_position(0);
    let mut b = reader::xlsx::read_reader(cur, false).unwrap();
    far_cells(&mut b, k, 7, ROUND.with(|r| r.get()));
    for i in 0..k {
        if i % 2 == 1 {
            b.get_sheet_mut(&0).unwrap().get_cell_mut((1u32, (i + 1) as u32)).set_value_string(format!("{}-{}", tag, i));
        } else {
            let _ = b.get_sheet_mut(&0);
        }
    }
    b
}

/// a chart over the text cells: its cached points are content of the file as well (they differ between clones whose cells differ)
fn add_chart(b: &mut Spreadsheet, k: usize) {
    let mut from = umya_spreadsheet::structs::drawing::spreadsheet::MarkerType::default();
    let mut to = umya_spreadsheet::structs::drawing::spreadsheet::MarkerType::default();
    from.set_coordinate("D2");
    to.set_coordinate("H12");
    let series = format!("Sheet1!$A$1:$A${}", k.max(1));
    let mut chart = Chart::default();
    chart.new_chart(ChartType::LineChart, from, to, vec![series.as_str()]);
    b.get_sheet_mut(&0).unwrap().add_chart(chart);
}

/// numeric cells far to the right (three-letter columns): anything a saver computes per column is exercised as well.
/// Every stress round of a process reaches columns that no earlier round of that process has used.
fn far_cells(b: &mut Spreadsheet, k: usize, salt: usize, round: u64) {
    let base = 703 + 160 * (round % 95) as u32;
    for (j, col) in [base + ((k as u32 * 29 + salt as u32 * 131) % 150), base + 155].iter().enumerate() {
        b.get_sheet_mut(&0).unwrap().get_cell_mut((*col, 2u32 + j as u32)).set_value_number((10 * k + j) as f64);
    }
}

thread_local! { static ROUND: StdCell<u64> = StdCell::new(0); }

fn make_books(k: usize, mode: &str, share: bool, nsavers: usize) -> Vec<Arc<Spreadsheet>> {
    make_books_inner(k, mode, share, nsavers)
}

fn make_books_inner(k: usize, mode: &str, share: bool, nsavers: usize) -> Vec<Arc<Spreadsheet>> {
    if mode == "lazy-shared" {
        let a = Arc::new(lazy_book(k, "N"));
        return (0..nsavers).map(|_| a.clone()).collect();
    }
    if mode == "lazy-clones" {
        let a = lazy_book(k, "N");
        return (0..nsavers)
            .map(|s| {
                let mut b = a.clone();
                if s > 0 {
                    b.get_sheet_mut(&0).unwrap().get_cell_mut((2u32, 1u32)).set_value_string(format!("clone{}-extra", s));
                }
                Arc::new(b)
            })
            .collect();
    }
    let mut a = new_file();
    for i in 0..k {
        a.get_sheet_mut(&0).unwrap().get_cell_mut((1u32, (i + 1) as u32)).set_value_string(format!("A-{}", i));
    }
    far_cells(&mut a, k, 0, ROUND.with(|r| r.get()));
    add_chart(&mut a, k);
    if share {
        let a = Arc::new(a);
        return (0..nsavers).map(|_| a.clone()).collect();
    }
    let mut v = vec![];
    for s in 0..nsavers {
        let mut b = a.clone();
        if s > 0 {
            for i in 0..k {
                let val = match mode {
                    "equal" => format!("A-{}", i),
                    "disjoint" => format!("{}-{}", (b'A' + s as u8) as char, i),
                    _ => {
                        if i % 2 == 0 {
                            format!("A-{}", i)
                        } else {
                            format!("{}-{}", (b'A' + s as u8) as char, i)
                        }
                    }
                };
                b.get_sheet_mut(&0).unwrap().get_cell_mut((1u32, (i + 1) as u32)).set_value_string(val);
            }
            far_cells(&mut b, k, s, ROUND.with(|r| r.get()));
        }
        v.push(Arc::new(b));
    }
    v
}

/// A1 notation written independently of the library (the oracle must not share process-wide state with the code under test)
fn a1_name(col: u32, row: u32) -> String {
    let mut n = col;
    let mut s = Vec::new();
    while n > 0 {
        let r = (n - 1) % 26;
        s.push(b'A' + r as u8);
        n = (n - 1) / 26;
    }
    s.reverse();
    format!("{}{}", String::from_utf8(s).unwrap(), row)
}

fn expected_cells(b: &Spreadsheet) -> Vec<(String, String)> {
    let mut v: Vec<(String, String)> = b.get_sheet(&0).unwrap().get_cell_collection().iter().filter(|c| c.get_data_type() == "s" || c.get_data_type() == "n").map(|c| (a1_name(*c.get_coordinate().get_col_num(), *c.get_coordinate().get_row_num()), if c.get_data_type() == "n" { format!("#{}", c.get_value()) } else { c.get_value().to_string() })).collect();
    v.sort();
    v
}

/// the parts a save of that workbook alone produces (saved twice: parts that differ between two solo saves,
/// e.g. anything time-dependent, are left out of the comparison)
pub type Solo = BTreeMap<String, Vec<u8>>;
pub fn solo_parts(books: &[Arc<Spreadsheet>], light: bool) -> Vec<Option<(Solo, BTreeSet<String>)>> {
    books
        .iter()
        .map(|b| {
            let save1 = |b: &Spreadsheet| -> Option<Solo> {
                let mut cur = std::io::Cursor::new(Vec::new());
                let r = guard(|| if light { writer::xlsx::write_writer_light(b, &mut cur) } else { writer::xlsx::write_writer(b, &mut cur) });
                match r {
                    Ok(Ok(())) => crate::zipx::all_parts(&cur.into_inner()).ok(),
                    _ => None,
                }
            };
            let (a, c) = (save1(b)?, save1(b)?);
            let names: BTreeSet<String> = a.keys().cloned().collect();
            let stable: Solo = a.into_iter().filter(|(k, v)| c.get(k) == Some(v)).collect();
            Some((stable, names))
        })
        .collect()
}

fn check_run(o: &mut Outcome, books: &[Arc<Spreadsheet>], r: &RunOut, solos: &[Option<(Solo, BTreeSet<String>)>], label: &str) {
    o.observations += 1;
    if let Some(s) = &r.stuck {
        // all savers are expected to be either parked at a hook or finished; anything else within 20 s is reported,
        // but as inconclusive unless a saver result below shows a failure
        o.inconclusive = Some(format!("{}: {}", label, s));
    }
    for (i, out) in r.outs.iter().enumerate() {
        match out {
            Err(e) => o.div(format!("saver-failed:{}", panic_site(e)), format!("{} saver {} schedule {:?}: {}", label, i, r.choices, e)),
            Ok(bytes) => match decode_texts(bytes) {
                Err(e) => o.div("output-corrupt", format!("{} saver {} schedule {:?}: {}", label, i, r.choices, e)),
                Ok((cells, sst)) => {
                    // (1) the whole package: every part that a solo save reproduces byte for byte must be there unchanged
                    if let (Some((stable, names)), Ok(parts)) = (&solos[i], crate::zipx::all_parts(bytes)) {
                        let got: BTreeSet<String> = parts.keys().cloned().collect();
                        if &got != names {
                            o.div("output-part-list-differs-from-solo-save", format!("{} saver {} schedule {:?}: parts {:?}, solo save {:?}", label, i, r.choices, got.symmetric_difference(names).collect::<Vec<_>>(), names.len()));
                        }
                        for (name, body) in stable {
                            if let Some(b) = parts.get(name) {
                                if b != body {
                                    let class: String = name.chars().filter(|c| !c.is_ascii_digit()).collect();
                                    o.div(format!("output-part-differs-from-solo-save:{}", class), format!("{} saver {} schedule {:?}: part {} differs from what a save of that workbook alone writes ({} vs {} bytes)", label, i, r.choices, name, b.len(), body.len()));
                                }
                            }
                        }
                        o.count("parts-compared-with-solo-save", stable.len() as u64);
                    }
                    // (2) text cells of the first sheet against the model, read without library code
                    let exp = expected_cells(&books[i]);
                    if cells != exp {
                        o.div("output-differs-from-solo-save", format!("{} saver {} schedule {:?}: file shows {:?}, the workbook holds {:?}", label, i, r.choices, cells, exp));
                    }
                    // conservation on the hook log
                    for e in r.log.iter().filter(|e| e.0 == i && e.1 == "sst.reg.done") {
                        if sst.get(e.3).map(|s| s.as_str()) != Some(e.2.as_str()) {
                            o.div("index-conservation", format!("{} saver {} registered {:?} as index {} but its table holds {:?} there; schedule {:?}", label, i, e.2, e.3, sst.get(e.3), r.choices));
                        }
                    }
                }
            },
        }
    }
}

/// one unit of controlled-schedule work; units run in child processes (the hook and scheduler are process-global)
#[derive(Clone)]
struct Unit {
    label: String,
    k: usize,
    mode: &'static str,
    light: bool,
    nsavers: usize,
    /// 0 = exhaustive; otherwise stop the DFS after that many schedules
    cap: u64,
    /// Some((part, parts, n)): seeded random schedules instead of DFS
    random: Option<(u64, u64, u64)>,
}

const MODES: [&str; 6] = ["equal", "disjoint", "overlap", "shared-reference", "lazy-shared", "lazy-clones"];

fn units(thorough: bool) -> Vec<Unit> {
    let mut v = vec![];
    let ks: Vec<usize> = if thorough { vec![1, 2, 3, 4, 5] } else { vec![1, 2, 3] };
    for &k in &ks {
        for mode in MODES {
            for light in [true, false] {
                v.push(Unit { label: format!("dfs k={} {} {}", k, mode, if light { "light" } else { "standard" }), k, mode, light, nsavers: 2, cap: 0, random: None });
            }
        }
    }
    // three savers: exhaustive for one string each (thorough), bounded DFS prefixes otherwise
    for k in [1usize, 2] {
        for mode in ["disjoint", "overlap", "shared-reference", "lazy-shared"] {
            if !thorough && (k > 1 || mode == "disjoint") {
                continue;
            }
            let cap = if !thorough { 1500 } else if k == 1 { 0 } else { 40_000 };
            v.push(Unit { label: format!("dfs3 k={} {}", k, mode), k, mode, light: true, nsavers: 3, cap, random: None });
        }
    }
    let (parts, n) = if thorough { (16, 40_000) } else { (4, 400) };
    for p in 0..parts {
        v.push(Unit { label: format!("random part {}", p), k: 0, mode: "", light: true, nsavers: 0, cap: 0, random: Some((p, parts, n / parts)) });
    }
    v
}

fn run_unit(u: &Unit, seed: u64, sched: &Arc<Sched>, o: &mut Outcome) -> (u64, u64, bool) {
    let mut distinct: BTreeSet<Vec<usize>> = BTreeSet::new();
    let mut schedules = 0u64;
    let mut complete = true;
    if let Some((part, _parts, n)) = u.random {
        let mut rng = Rng::new(seed, 1600 + part);
        for j in 0..n {
            let k = rng.range(2, 8) as usize;
            let mode = *rng.pick(&MODES);
            let nsavers = rng.range(2, 3) as usize;
            let light = rng.chance(3, 4);
            let books = make_books(k, mode, mode == "shared-reference", nsavers);
            // PCT-like: one saver is preferred, with a few random change points
            let mut prio = rng.below(nsavers as u64) as usize;
            let mut r2 = rng.clone();
            let r = run_schedule(&books, light, sched, &mut |_step, n| {
                if r2.chance(1, 6) {
                    prio = r2.below(3) as usize;
                }
                if r2.chance(1, 3) {
                    r2.below(n as u64) as usize
                } else {
                    prio.min(n - 1)
                }
            });
            rng.next();
            schedules += 1;
            let mut key = vec![k, light as usize, nsavers, fnv(mode) as usize % 997];
            key.extend(r.grants.iter());
            distinct.insert(key);
            let solos = solo_parts(&books, light);
            check_run(o, &books, &r, &solos, &format!("random#{}.{} k={} {} savers={} {}", part, j, k, mode, nsavers, if light { "light" } else { "standard" }));
            if r.stuck.is_some() {
                break;
            }
        }
        return (schedules, distinct.len() as u64, false);
    }
    let books = make_books(u.k, u.mode, u.mode == "shared-reference", u.nsavers);
    let solos = solo_parts(&books, u.light);
    let mut prefix: Vec<usize> = vec![];
    loop {
        let pfx = prefix.clone();
        let r = run_schedule(&books, u.light, sched, &mut |step, _n| if step < pfx.len() { pfx[step] } else { 0 });
        schedules += 1;
        distinct.insert(r.grants.clone());
        check_run(o, &books, &r, &solos, &u.label);
        if r.stuck.is_some() || o.divs.len() > 20 || (u.cap > 0 && schedules >= u.cap) {
            complete = false;
            break;
        }
        // next schedule: bump the last choice that still has an unexplored sibling
        let mut c = r.choices.clone();
        let mut i = c.len();
        let mut advanced = false;
        while i > 0 {
            i -= 1;
            if c[i] + 1 < r.options[i] {
                c[i] += 1;
                c.truncate(i + 1);
                advanced = true;
                break;
            }
        }
        if !advanced {
            break;
        }
        prefix = c;
    }
    (schedules, distinct.len() as u64, complete)
}

fn esc(s: &str) -> String {
    s.replace('\\', "\\\\").replace('\n', "\\n").replace('\t', "\\t")
}
fn unesc(s: &str) -> String {
    let mut o = String::new();
    let mut it = s.chars();
    while let Some(c) = it.next() {
        if c == '\\' {
            match it.next() {
                Some('n') => o.push('\n'),
                Some('t') => o.push('\t'),
                Some(x) => o.push(x),
                None => {}
            }
        } else {
            o.push(c);
        }
    }
    o
}

/// child process: one unit, result as tab-separated lines on stdout
pub fn unit_cmd(args: &Args) {
    let us = units(args.tier == "thorough");
    let u = &us[args.get_u64("unit", 0) as usize];
    let sched = install_scheduler();
    let mut o = Outcome::default();
    let (schedules, distinct, complete) = run_unit(u, args.seed, &sched, &mut o);
    verif_hooks::set_hook(None);
    let mut out = String::new();
    out.push_str(&format!("UNIT\t{}\t{}\t{}\t{}\t{}\n", esc(&u.label), schedules, distinct, complete as u8, o.observations));
    for d in &o.divs {
        out.push_str(&format!("DIV\t{}\t{}\n", esc(&d.sig), esc(&d.detail)));
    }
    if let Some(i) = &o.inconclusive {
        out.push_str(&format!("INCONCLUSIVE\t{}\n", esc(i)));
    }
    for (k, n) in &o.counters {
        out.push_str(&format!("COUNT\t{}\t{}\n", esc(k), n));
    }
    out.push_str("END\n");
    print!("{}", out);
}

pub fn run(args: &Args) {
    let thorough = args.tier == "thorough";
    let us = units(thorough);
    let mut o = Outcome::default();
    let exe = std::env::current_exe().unwrap();
    let next = std::sync::atomic::AtomicUsize::new(0);
    let results: Mutex<Vec<(usize, Result<String, String>)>> = Mutex::new(vec![]);
    // heaviest units first (three savers, then larger k)
    let mut order: Vec<usize> = (0..us.len()).collect();
    order.sort_by_key(|&i| std::cmp::Reverse((us[i].nsavers, us[i].k)));
    std::thread::scope(|sc| {
        for _ in 0..args.threads.min(14).max(1) {
            sc.spawn(|| loop {
                let j = next.fetch_add(1, std::sync::atomic::Ordering::SeqCst);
                if j >= order.len() {
                    break;
                }
                let i = order[j];
                let r = std::process::Command::new(&exe)
                    .args(["c16unit", "--unit", &i.to_string(), "--tier", &args.tier, "--seed", &args.seed.to_string()])
                    .output();
                let r = match r {
                    Ok(out) => {
                        let s = String::from_utf8_lossy(&out.stdout).to_string();
                        if out.status.success() && s.ends_with("END\n") {
                            Ok(s)
                        } else {
                            Err(format!("exit {:?}; stderr tail: {}", out.status.code(), String::from_utf8_lossy(&out.stderr).chars().rev().take(600).collect::<String>().chars().rev().collect::<String>()))
                        }
                    }
                    Err(e) => Err(format!("cannot start: {}", e)),
                };
                results.lock().unwrap().push((i, r));
            });
        }
    });
    let mut per_unit: BTreeMap<String, J> = BTreeMap::new();
    let (mut schedules, mut dfs_schedules, mut distinct) = (0u64, 0u64, 0u64);
    let mut all_complete = true;
    let mut results = results.into_inner().unwrap();
    results.sort_by_key(|r| r.0);
    for (i, r) in results {
        match r {
            Err(e) => {
                // a child that died is a harness/platform problem unless it left a divergence behind
                o.inconclusive = Some(format!("unit {:?} did not finish: {}", us[i].label, e));
            }
            Ok(s) => {
                for line in s.lines() {
                    let f: Vec<&str> = line.split('\t').collect();
                    match f[0] {
                        "UNIT" => {
                            let (n, d, c, obs): (u64, u64, bool, u64) = (f[2].parse().unwrap(), f[3].parse().unwrap(), f[4] == "1", f[5].parse().unwrap());
                            schedules += n;
                            distinct += d;
                            o.observations += obs;
                            if us[i].random.is_none() {
                                dfs_schedules += n;
                                all_complete &= c || us[i].cap > 0;
                                per_unit.insert(unesc(f[1]), jo(vec![("schedules", J::I(n as i64)), ("distinct_interleavings", J::I(d as i64)), ("all_interleavings_enumerated", J::B(c))]));
                            }
                        }
                        "DIV" => o.div(unesc(f[1]), unesc(f[2])),
                        "COUNT" => o.count(&unesc(f[1]), f[2].parse().unwrap_or(0)),
                        "INCONCLUSIVE" => o.inconclusive = Some(unesc(f[1])),
                        _ => {}
                    }
                }
            }
        }
    }
    // (b) free-running stress without the scheduler
    let rounds = if thorough { 3000 } else { 200 };
    // (b) free-running stress in fresh processes: state that is initialised on first use is initialised under contention each time
    let (nproc, per) = if thorough { (48u64, rounds / 48 + 1) } else { (8u64, rounds / 8) };
    let mut stress = 0u64;
    let outs: Vec<_> = (0..nproc)
        .map(|j| std::process::Command::new(&exe).args(["c16stress", "--rounds", &per.to_string(), "--seed", &(args.seed * 1000 + j).to_string()]).stdout(std::process::Stdio::piped()).stderr(std::process::Stdio::null()).spawn())
        .collect();
    for (j, ch) in outs.into_iter().enumerate() {
        match ch.and_then(|c| c.wait_with_output()) {
            Ok(out) => {
                let text = String::from_utf8_lossy(&out.stdout).to_string();
                stress += per;
                o.observations += per;
                for line in text.lines().filter(|l| l.starts_with("DIVERGENCE ")) {
                    let mut it = line.splitn(3, ' ');
                    it.next();
                    let sig = it.next().unwrap_or("stress-divergence").to_string();
                    o.div(sig, format!("fresh process {}: {}", j, it.next().unwrap_or("")));
                }
                if !out.status.success() && !text.contains("DIVERGENCE ") {
                    o.inconclusive = Some(format!("stress process {} ended with {:?} without a report", j, out.status.code()));
                }
            }
            Err(e) => o.inconclusive = Some(format!("cannot run stress process {}: {}", j, e)),
        }
    }
    o.count("stress.fresh-processes", nproc);
    o.count("schedules.dfs", dfs_schedules);
    o.count("schedules.random", schedules - dfs_schedules);
    o.count("stress.rounds", stress);
    o.count("distinct_inputs", distinct);
    o.nontrivial = true;
    o.hash = 16;
    o.descr = jo(vec![("controlled_schedule_units", J::O(per_unit.into_iter().collect()))]);
    let mut agg = Agg::default();
    agg.evaluations = schedules + stress;
    merge(&mut agg, args, 0, o);
    finish(args, agg, vec![("distinct_interleavings", J::I(distinct as i64)), ("exhaustive_small_configurations", J::B(all_complete))]);
}

/// free-running concurrent saves (no scheduler); also used by the ThreadSanitizer and Miri builds
#[allow(dead_code)]
pub fn stress_rounds(rounds: u64, seed: u64, o: &mut Outcome) -> u64 {
    stress_rounds_with(rounds, seed, o, 12, false, MODES.len())
}
/// `nmodes` < MODES.len() leaves out the lazily opened workbooks (reading a package is far too slow under Miri)
pub fn stress_rounds_with(rounds: u64, seed: u64, o: &mut Outcome, maxk: u32, light_only: bool, nmodes: usize) -> u64 {
    let mut rng = Rng::new(seed, 1616);
    for j in 0..rounds {
        let k = rng.range(1, maxk) as usize;
        // the first round of a process never builds a lazily opened workbook (that needs a save of its own, which would
        // initialise process-wide state before the concurrent saves do)
        let mode = *rng.pick(&MODES[..if j == 0 { nmodes.min(4) } else { nmodes }]);
        let nsavers = rng.range(2, 3) as usize;
        let light = light_only || rng.chance(1, 2);
        ROUND.with(|r| r.set(j));
        let books = make_books(k, mode, mode == "shared-reference", nsavers);
        let barrier = Arc::new(std::sync::Barrier::new(nsavers));
        // a third of the rounds save to paths in one directory (destinations that differ only in their extension), the rest to memory
        let dir = if rng.chance(1, 3) {
            let d = std::env::temp_dir().join(format!("uvh-c16-{}-{}", std::process::id(), j));
            let _ = std::fs::create_dir_all(&d);
            Some(d)
        } else {
            None
        };
        let hs: Vec<_> = books
            .iter()
            .enumerate()
            .map(|(si, b)| {
                let b = b.clone();
                let bar = barrier.clone();
                let path = dir.as_ref().map(|d| d.join(format!("book.{}", ["xlsx", "xlsm", "xltx"][si % 3])));
                std::thread::spawn(move || {
                    bar.wait();
                    if let Some(p) = path {
                        let r = guard(|| if light { writer::xlsx::write_light(&*b, &p) } else { writer::xlsx::write(&*b, &p) });
                        return match r {
                            Ok(Ok(())) => std::fs::read(&p).map_err(|e| format!("saved file not readable: {}", e)),
                            Ok(Err(e)) => Err(format!("save error: {:?}", e)),
                            Err(e) => Err(format!("save panic: {}", e)),
                        };
                    }
                    let mut cur = std::io::Cursor::new(Vec::new());
                    let r = guard(|| if light { writer::xlsx::write_writer_light(&*b, &mut cur) } else { writer::xlsx::write_writer(&*b, &mut cur) });
                    match r {
                        Ok(Ok(())) => Ok(cur.into_inner()),
                        Ok(Err(e)) => Err(format!("save error: {:?}", e)),
                        Err(e) => Err(format!("save panic: {}", e)),
                    }
                })
            })
            .collect();
        let outs: Vec<Result<Vec<u8>, String>> = hs.into_iter().map(|h| h.join().unwrap_or_else(|_| Err("saver thread died".into()))).collect();
        let r = RunOut { grants: vec![], choices: vec![], options: vec![], outs, log: vec![], stuck: None };
        // the reference saves come after the concurrent ones: they must not initialise any process-wide state beforehand
        let solos = solo_parts(&books, light);
        check_run(o, &books, &r, &solos, &format!("stress#{} k={} {} savers={}{}", j, k, mode, nsavers, if dir.is_some() { " saved-to-paths" } else { "" }));
        if let Some(d) = dir {
            let _ = std::fs::remove_dir_all(d);
        }
    }
    rounds
}

/// entry point for sanitizer builds: free-running stress only, exit status 1 on any divergence
pub fn stress_cmd(args: &Args) {
    let mut o = Outcome::default();
    let n = stress_rounds_with(args.get_u64("rounds", 200), args.seed, &mut o, args.get_u64("maxk", 12) as u32, args.get_u64("light-only", 0) == 1, args.get_u64("modes", MODES.len() as u64) as usize);
    // probe of process-wide state after the concurrent saves: library naming of columns against our own
    for col in [1u32, 26, 27, 702, 703, 704, 1000, 5000, 16383, 16384] {
        let lib = helper::coordinate::string_from_column_index(&col);
        let own = a1_name(col, 1);
        if format!("{}1", lib) != own {
            o.div("process-state-after-concurrent-saves", format!("after the concurrent saves the library names column {} {:?} (expected {:?})", col, lib, own.trim_end_matches('1')));
            break;
        }
    }
    println!("c16stress: {} rounds, {} divergences", n, o.divs.len());
    for d in o.divs.iter().take(5) {
        println!("DIVERGENCE {} {}", d.sig, d.detail);
    }
    if !o.divs.is_empty() {
        std::process::exit(1);
    }
}
