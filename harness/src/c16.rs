//! C16: concurrent saves of a workbook or its clones equal sequential saves.
//! (a) controlled schedules: the cfg(umya_verif) hooks park every saver before each shared-string
//!     registration, before the table dump and at save begin/end; a scheduler grants one step at a time.
//!     Exhaustive DFS over all interleavings for small configurations, seeded random schedules for larger ones.
//! (b) free-running stress of the same workload (also the entry point for the ThreadSanitizer / Miri builds).
//! Oracle: every output's text cells equal the solo save of that workbook; per-saver conservation law on the
//! hook log (the index handed out for a text maps to that text in the saver's own string table).
use crate::common::*;
use std::cell::Cell as StdCell;
use std::collections::{BTreeMap, BTreeSet};
use std::sync::{Arc, Condvar, Mutex};
use umya_spreadsheet::*;

thread_local! { static SAVER: StdCell<Option<usize>> = StdCell::new(None); }

#[derive(Default)]
struct St {
    waiting: Vec<bool>,
    done: Vec<bool>,
    granted: Option<usize>,
    log: Vec<(usize, &'static str, String, usize)>,
    controlled: bool,
}
pub struct Sched {
    m: Mutex<St>,
    cv: Condvar,
}

pub fn install_scheduler() -> Arc<Sched> {
    let sched = Arc::new(Sched { m: Mutex::new(St::default()), cv: Condvar::new() });
    let s = sched.clone();
    verif_hooks::set_hook(Some(Arc::new(move |tag, text, n| {
        let id = match SAVER.with(|c| c.get()) {
            Some(i) => i,
            None => return,
        };
        let mut st = s.m.lock().unwrap();
        if !st.controlled {
            return;
        }
        st.log.push((id, tag, text.to_string(), n));
        if tag == "sst.reg.done" {
            return;
        }
        // yield point: park until the scheduler grants this saver a step
        st.waiting[id] = true;
        s.cv.notify_all();
        let mut st = s.cv.wait_while(st, |st| st.granted != Some(id)).unwrap();
        st.granted = None;
        st.waiting[id] = false;
        s.cv.notify_all();
    })));
    sched
}

pub struct RunOut {
    pub choices: Vec<usize>,
    pub options: Vec<usize>,
    pub outs: Vec<Result<Vec<u8>, String>>,
    pub log: Vec<(usize, &'static str, String, usize)>,
    pub stuck: Option<String>,
}

/// run one schedule: `pick(step, ready)` chooses the index into the ready list
pub fn run_schedule(books: &[Arc<Spreadsheet>], light: bool, sched: &Arc<Sched>, pick: &mut dyn FnMut(usize, usize) -> usize) -> RunOut {
    let n = books.len();
    {
        let mut st = sched.m.lock().unwrap();
        *st = St { waiting: vec![false; n], done: vec![false; n], granted: None, log: vec![], controlled: true };
    }
    let mut hs = vec![];
    for (i, b) in books.iter().enumerate() {
        let b = b.clone();
        let s = sched.clone();
        hs.push(std::thread::spawn(move || {
            SAVER.with(|c| c.set(Some(i)));
            let mut cur = std::io::Cursor::new(Vec::new());
            let r = guard(|| if light { writer::xlsx::write_writer_light(&*b, &mut cur) } else { writer::xlsx::write_writer(&*b, &mut cur) });
            let mut st = s.m.lock().unwrap();
            st.done[i] = true;
            s.cv.notify_all();
            drop(st);
            match r {
                Ok(Ok(())) => Ok(cur.into_inner()),
                Ok(Err(e)) => Err(format!("save error: {:?}", e)),
                Err(e) => Err(format!("save panic: {}", e)),
            }
        }));
    }
    let mut choices = vec![];
    let mut options = vec![];
    let mut step = 0;
    let mut stuck = None;
    loop {
        let st = sched.m.lock().unwrap();
        let (mut st, timeout) = sched.cv.wait_timeout_while(st, std::time::Duration::from_secs(20), |st| !(0..n).all(|i| st.waiting[i] || st.done[i]) || st.granted.is_some()).unwrap();
        if timeout.timed_out() {
            // no quiescence: some saver is neither parked at a yield point nor finished
            stuck = Some(format!("no quiescence within 20 s: waiting={:?} done={:?} granted={:?} last events {:?}", st.waiting, st.done, st.granted, st.log.iter().rev().take(4).collect::<Vec<_>>()));
            st.controlled = false;
            st.granted = None;
            // release everybody so that the threads can be joined if they are able to run at all
            for i in 0..n {
                st.waiting[i] = false;
            }
            drop(st);
            // parked threads wait for granted == their id: grant them one by one until they are gone
            for _ in 0..2000 {
                let mut st = sched.m.lock().unwrap();
                if (0..n).all(|i| st.done[i]) {
                    break;
                }
                if st.granted.is_none() {
                    let next = (0..n).find(|&i| !st.done[i]);
                    st.granted = next;
                    sched.cv.notify_all();
                }
                drop(st);
                std::thread::sleep(std::time::Duration::from_millis(2));
            }
            break;
        }
        let ready: Vec<usize> = (0..n).filter(|&i| st.waiting[i] && !st.done[i]).collect();
        if ready.is_empty() {
            break;
        }
        let idx = pick(step, ready.len()).min(ready.len() - 1);
        options.push(ready.len());
        choices.push(idx);
        step += 1;
        st.granted = Some(ready[idx]);
        sched.cv.notify_all();
    }
    let mut outs = vec![];
    for h in hs {
        outs.push(h.join().unwrap_or_else(|_| Err("saver thread died".into())));
    }
    let log = std::mem::take(&mut sched.m.lock().unwrap().log);
    sched.m.lock().unwrap().controlled = false;
    RunOut { choices, options, outs, log, stuck }
}

/// text cells of the first sheet and the shared string table, read from the file without library code
pub fn decode_texts(xlsx: &[u8]) -> Result<(Vec<(String, String)>, Vec<String>), String> {
    let sst_xml = crate::zipx::read_part(xlsx, "xl/sharedStrings.xml").unwrap_or_default();
    let mut sst = vec![];
    for si in sst_xml.split("<si>").skip(1) {
        let body = &si[..si.find("</si>").unwrap_or(si.len())];
        let mut text = String::new();
        for t in body.split("<t").skip(1) {
            if let (Some(a), Some(b)) = (t.find('>'), t.find("</t>")) {
                if a < b {
                    text.push_str(&t[a + 1..b]);
                }
            }
        }
        sst.push(text);
    }
    let sheet = crate::zipx::read_part(xlsx, "xl/worksheets/sheet1.xml")?;
    let mut cells = vec![];
    for c in sheet.split("<c ").skip(1) {
        let head = &c[..c.find('>').unwrap_or(c.len())];
        let r = head.split("r=\"").nth(1).and_then(|x| x.split('"').next()).unwrap_or("").to_string();
        if head.contains("t=\"s\"") {
            let v = c.split("<v>").nth(1).and_then(|x| x.split("</v>").next()).unwrap_or("");
            let idx: usize = v.parse().map_err(|_| format!("cell {} has a non-numeric string index {:?}", r, v))?;
            match sst.get(idx) {
                Some(t) => cells.push((r, t.clone())),
                None => return Err(format!("cell {} points at string index {} but the table has {} entries", r, idx, sst.len())),
            }
        }
    }
    cells.sort();
    Ok((cells, sst))
}

fn make_books(k: usize, mode: &str, share: bool, nsavers: usize) -> Vec<Arc<Spreadsheet>> {
    let mut a = new_file();
    for i in 0..k {
        a.get_sheet_mut(&0).unwrap().get_cell_mut((1u32, (i + 1) as u32)).set_value_string(format!("A-{}", i));
    }
    if share {
        let a = Arc::new(a);
        return (0..nsavers).map(|_| a.clone()).collect();
    }
    let mut v = vec![];
    for s in 0..nsavers {
        let mut b = a.clone();
        if s > 0 {
            for i in 0..k {
                let val = match mode {
                    "equal" => format!("A-{}", i),
                    "disjoint" => format!("{}-{}", (b'A' + s as u8) as char, i),
                    _ => {
                        if i % 2 == 0 {
                            format!("A-{}", i)
                        } else {
                            format!("{}-{}", (b'A' + s as u8) as char, i)
                        }
                    }
                };
                b.get_sheet_mut(&0).unwrap().get_cell_mut((1u32, (i + 1) as u32)).set_value_string(val);
            }
        }
        v.push(Arc::new(b));
    }
    v
}

fn expected_cells(b: &Spreadsheet) -> Vec<(String, String)> {
    let mut v: Vec<(String, String)> = b.get_sheet(&0).unwrap().get_cell_collection().iter().filter(|c| c.get_data_type() == "s").map(|c| (c.get_coordinate().get_coordinate(), c.get_value().to_string())).collect();
    v.sort();
    v
}

fn check_run(o: &mut Outcome, books: &[Arc<Spreadsheet>], r: &RunOut, label: &str) {
    o.observations += 1;
    if let Some(s) = &r.stuck {
        // all savers are expected to be either parked at a hook or finished; anything else within 20 s is reported,
        // but as inconclusive unless a saver result below shows a failure
        o.inconclusive = Some(format!("{}: {}", label, s));
    }
    for (i, out) in r.outs.iter().enumerate() {
        match out {
            Err(e) => o.div(format!("saver-failed:{}", panic_site(e)), format!("{} saver {} schedule {:?}: {}", label, i, r.choices, e)),
            Ok(bytes) => match decode_texts(bytes) {
                Err(e) => o.div("output-corrupt", format!("{} saver {} schedule {:?}: {}", label, i, r.choices, e)),
                Ok((cells, sst)) => {
                    let exp = expected_cells(&books[i]);
                    if cells != exp {
                        o.div("output-differs-from-solo-save", format!("{} saver {} schedule {:?}: file shows {:?}, the workbook holds {:?}", label, i, r.choices, cells, exp));
                    }
                    // conservation on the hook log
                    for e in r.log.iter().filter(|e| e.0 == i && e.1 == "sst.reg.done") {
                        if sst.get(e.3).map(|s| s.as_str()) != Some(e.2.as_str()) {
                            o.div("index-conservation", format!("{} saver {} registered {:?} as index {} but its table holds {:?} there; schedule {:?}", label, i, e.2, e.3, sst.get(e.3), r.choices));
                        }
                    }
                }
            },
        }
    }
}

pub fn run(args: &Args) {
    let sched = install_scheduler();
    let thorough = args.tier == "thorough";
    let mut o = Outcome::default();
    let mut distinct: BTreeSet<Vec<usize>> = BTreeSet::new();
    let mut schedules = 0u64;
    let mut per_config: BTreeMap<String, u64> = BTreeMap::new();
    // (a1) exhaustive DFS
    let ks: Vec<usize> = if thorough { vec![1, 2, 3, 4] } else { vec![1, 2, 3] };
    for &k in &ks {
        for mode in ["equal", "disjoint", "overlap", "shared-reference"] {
            for light in [true, false] {
                if !light && k > 2 && !thorough {
                    continue;
                }
                let books = make_books(k, mode, mode == "shared-reference", 2);
                let label = format!("dfs k={} {} {}", k, mode, if light { "light" } else { "standard" });
                let mut prefix: Vec<usize> = vec![];
                loop {
                    let pfx = prefix.clone();
                    let r = run_schedule(&books, light, &sched, &mut |step, _n| if step < pfx.len() { pfx[step] } else { 0 });
                    schedules += 1;
                    *per_config.entry(label.clone()).or_insert(0) += 1;
                    let sig: Vec<usize> = r.log.iter().filter(|e| e.1 != "sst.reg.done").map(|e| e.0).collect();
                    let mut key = vec![k, light as usize, fnv(mode) as usize % 997];
                    key.extend(sig);
                    distinct.insert(key);
                    check_run(&mut o, &books, &r, &label);
                    if r.stuck.is_some() || !o.divs.is_empty() && o.divs.len() > 20 {
                        break;
                    }
                    // next schedule: bump the last choice that still has an unexplored sibling
                    let mut c = r.choices.clone();
                    let mut i = c.len();
                    let mut advanced = false;
                    while i > 0 {
                        i -= 1;
                        if c[i] + 1 < r.options[i] {
                            c[i] += 1;
                            c.truncate(i + 1);
                            advanced = true;
                            break;
                        }
                    }
                    if !advanced {
                        break;
                    }
                    prefix = c;
                }
            }
        }
    }
    // three savers, exhaustive, for the smallest configurations (thorough tier)
    if thorough {
        for k in [1usize, 2] {
            for mode in ["disjoint", "overlap", "shared-reference"] {
                let books = make_books(k, mode, mode == "shared-reference", 3);
                let label = format!("dfs3 k={} {}", k, mode);
                let mut prefix: Vec<usize> = vec![];
                loop {
                    let pfx = prefix.clone();
                    let r = run_schedule(&books, true, &sched, &mut |step, _n| if step < pfx.len() { pfx[step] } else { 0 });
                    schedules += 1;
                    *per_config.entry(label.clone()).or_insert(0) += 1;
                    let sig: Vec<usize> = r.log.iter().filter(|e| e.1 != "sst.reg.done").map(|e| e.0).collect();
                    let mut key = vec![k, 3, fnv(mode) as usize % 997];
                    key.extend(sig);
                    distinct.insert(key);
                    check_run(&mut o, &books, &r, &label);
                    if r.stuck.is_some() || o.divs.len() > 20 || per_config[&label] > 60_000 {
                        break;
                    }
                    let mut c = r.choices.clone();
                    let mut i = c.len();
                    let mut advanced = false;
                    while i > 0 {
                        i -= 1;
                        if c[i] + 1 < r.options[i] {
                            c[i] += 1;
                            c.truncate(i + 1);
                            advanced = true;
                            break;
                        }
                    }
                    if !advanced {
                        break;
                    }
                    prefix = c;
                }
            }
        }
    }
    let dfs_schedules = schedules;
    // (a2) seeded random schedules, 3 savers, more strings
    let nrandom = if thorough { 20_000 } else { 400 };
    let mut rng = Rng::new(args.seed, 16);
    for j in 0..nrandom {
        let k = rng.range(2, 8) as usize;
        let mode = *rng.pick(&["equal", "disjoint", "overlap", "shared-reference"]);
        let nsavers = rng.range(2, 3) as usize;
        let light = rng.chance(3, 4);
        let books = make_books(k, mode, mode == "shared-reference", nsavers);
        // PCT-like: one saver is preferred, with a few random change points
        let mut prio = rng.below(nsavers as u64) as usize;
        let mut r2 = rng.clone();
        let r = run_schedule(&books, light, &sched, &mut |_step, n| {
            if r2.chance(1, 6) {
                prio = r2.below(3) as usize;
            }
            if r2.chance(1, 3) {
                r2.below(n as u64) as usize
            } else {
                prio.min(n - 1)
            }
        });
        rng.next();
        schedules += 1;
        let sig: Vec<usize> = r.log.iter().filter(|e| e.1 != "sst.reg.done").map(|e| e.0).collect();
        let mut key = vec![k, light as usize, nsavers, fnv(mode) as usize % 997];
        key.extend(sig);
        distinct.insert(key);
        check_run(&mut o, &books, &r, &format!("random#{} k={} {} savers={}", j, k, mode, nsavers));
        if r.stuck.is_some() {
            break;
        }
    }
    verif_hooks::set_hook(None);
    // (b) free-running stress without the scheduler
    let rounds = if thorough { 3000 } else { 200 };
    let stress = stress_rounds(rounds, args.seed, &mut o);
    o.count("schedules.dfs", dfs_schedules);
    o.count("schedules.random", schedules - dfs_schedules);
    o.count("stress.rounds", stress);
    o.count("distinct_inputs", distinct.len() as u64);
    o.nontrivial = true;
    o.hash = 16;
    o.descr = jo(vec![("dfs_schedules_per_configuration", J::O(per_config.iter().map(|(k, v)| (k.clone(), J::I(*v as i64))).collect()))]);
    let mut agg = Agg::default();
    agg.evaluations = schedules + stress;
    merge(&mut agg, args, 0, o);
    agg.evaluations -= 0;
    finish(args, agg, vec![("distinct_interleavings", J::I(distinct.len() as i64)), ("exhaustive_small_configurations", J::B(true))]);
}

/// free-running concurrent saves (no scheduler); also used by the ThreadSanitizer and Miri builds
pub fn stress_rounds(rounds: u64, seed: u64, o: &mut Outcome) -> u64 {
    stress_rounds_with(rounds, seed, o, 12, false)
}
pub fn stress_rounds_with(rounds: u64, seed: u64, o: &mut Outcome, maxk: u32, light_only: bool) -> u64 {
    let mut rng = Rng::new(seed, 1616);
    for j in 0..rounds {
        let k = rng.range(1, maxk) as usize;
        let mode = *rng.pick(&["equal", "disjoint", "overlap", "shared-reference"]);
        let nsavers = rng.range(2, 3) as usize;
        let light = light_only || rng.chance(1, 2);
        let books = make_books(k, mode, mode == "shared-reference", nsavers);
        let barrier = Arc::new(std::sync::Barrier::new(nsavers));
        let hs: Vec<_> = books
            .iter()
            .map(|b| {
                let b = b.clone();
                let bar = barrier.clone();
                std::thread::spawn(move || {
                    bar.wait();
                    let mut cur = std::io::Cursor::new(Vec::new());
                    let r = guard(|| if light { writer::xlsx::write_writer_light(&*b, &mut cur) } else { writer::xlsx::write_writer(&*b, &mut cur) });
                    match r {
                        Ok(Ok(())) => Ok(cur.into_inner()),
                        Ok(Err(e)) => Err(format!("save error: {:?}", e)),
                        Err(e) => Err(format!("save panic: {}", e)),
                    }
                })
            })
            .collect();
        let outs: Vec<Result<Vec<u8>, String>> = hs.into_iter().map(|h| h.join().unwrap_or_else(|_| Err("saver thread died".into()))).collect();
        let r = RunOut { choices: vec![], options: vec![], outs, log: vec![], stuck: None };
        check_run(o, &books, &r, &format!("stress#{} k={} {} savers={}", j, k, mode, nsavers));
    }
    rounds
}

/// entry point for sanitizer builds: free-running stress only, exit status 1 on any divergence
pub fn stress_cmd(args: &Args) {
    let mut o = Outcome::default();
    let n = stress_rounds_with(args.get_u64("rounds", 200), args.seed, &mut o, args.get_u64("maxk", 12) as u32, args.get_u64("light-only", 0) == 1);
    println!("c16stress: {} rounds, {} divergences", n, o.divs.len());
    for d in o.divs.iter().take(5) {
        println!("DIVERGENCE {} {}", d.sig, d.detail);
    }
    if !o.divs.is_empty() {
        std::process::exit(1);
    }
}
