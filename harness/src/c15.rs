//! C15: protection password hashes verify per ECMA-376; no clear-text password.
//! The harness sets sheet / workbook / revisions protection passwords through the public API, records
//! the stored parameters before and after a save/reload cycle and writes the saved file;
//! monitors/c15_check.py recomputes the hash with hashlib and scans the saved XML.
use crate::common::*;
use crate::dump::{load, save};
use std::io::Write;
use umya_spreadsheet::*;

fn params(book: &Spreadsheet, kind: &str) -> Vec<(&'static str, String)> {
    match kind {
        "sheet" => match book.get_sheet(&0).unwrap().get_sheet_protection() {
            Some(p) => vec![("alg", p.get_algorithm_name().to_string()), ("salt", p.get_salt_value().to_string()), ("spin", p.get_spin_count().to_string()), ("hash", p.get_hash_value().to_string()), ("raw", p.get_password_raw().to_string())],
            None => vec![("missing", "true".into())],
        },
        "workbook" => match book.get_workbook_protection() {
            Some(p) => vec![("alg", p.get_workbook_algorithm_name().to_string()), ("salt", p.get_workbook_salt_value().to_string()), ("spin", p.get_workbook_spin_count().to_string()), ("hash", p.get_workbook_hash_value().to_string()), ("raw", p.get_workbook_password_raw().to_string())],
            None => vec![("missing", "true".into())],
        },
        _ => match book.get_workbook_protection() {
            Some(p) => vec![("alg", p.get_revisions_algorithm_name().to_string()), ("salt", p.get_revisions_salt_value().to_string()), ("spin", p.get_revisions_spin_count().to_string()), ("hash", p.get_revisions_hash_value().to_string()), ("raw", p.get_revisions_password_raw().to_string())],
            None => vec![("missing", "true".into())],
        },
    }
}
fn jparams(v: &[(&'static str, String)]) -> J {
    J::O(v.iter().map(|(k, x)| (k.to_string(), J::S(x.clone()))).collect())
}

pub fn run(args: &Args) {
    std::fs::create_dir_all(&args.out).unwrap();
    let meta = std::sync::Mutex::new(std::io::BufWriter::new(std::fs::File::create(format!("{}/cases.jsonl", args.out)).unwrap()));
    let agg = run_cases(args, |seed, k| {
        let mut o = Outcome::default();
        let mut rng = Rng::new(seed, k);
        let kind = ["sheet", "workbook", "revisions"][(k % 3) as usize];
        let password: String = match rng.below(12) {
            0 => String::new(),
            // white space and line ends at the edges are part of the password
            10 => format!("s3cret-{}{}", k, *rng.pick(&["\r\n", "\n", "\r", " ", "\t"])),
            11 => format!("{}lead-{}", *rng.pick(&[" ", "\n", "\u{3000}", "\t "]), k),
            // longer than 255 UTF-16 units (the hash algorithm has no length limit)
            7 => format!("{}{}", "long-é".repeat(rng.range(43, 60) as usize), k),
            8 => "😀".repeat(rng.range(126, 140) as usize),
            9 if k % 2 == 0 => "漢".repeat(*rng.pick(&[341usize, 342, 400, 700])),
            9 => "x".repeat(*rng.pick(&[254usize, 255, 256, 257, 511, 512, 1000])),
            1 => format!("{}-{}", "L".repeat(240), k),
            2 => format!("pw-{}-é😀𠀋", k),
            3 => format!("パスワード{}", k),
            4 => format!("p w\t{} <&>\"", k),
            _ => format!("Secret#{}", k),
        };
        let legacy_first = rng.chance(1, 3);
        let twice = rng.chance(1, 4);
        // a record that already carries hash parameters (a file of another producer, or an earlier protection) before the password is set
        let prior = rng.chance(1, 3);
        let prior_spin = *rng.pick(&[1u32, 1000, 50_000, 99_999, 200_000]);
        let mut book = new_file();
        book.get_sheet_mut(&0).unwrap().get_cell_mut("A1").set_value_string("x");
        let mut first_salt = String::new();
        let r = guard(|| {
            match kind {
                "sheet" => {
                    let p = book.get_sheet_mut(&0).unwrap().get_sheet_protection_mut();
                    // the password record is kept whatever the "sheet" flag says (true, false, or never set)
                    match k % 4 {
                        0 => {}
                        1 => {
                            p.set_sheet(false);
                        }
                        _ => {
                            p.set_sheet(true);
                        }
                    }
                    if legacy_first {
                        p.set_password_raw("CBEB");
                    }
                    if prior {
                        p.set_algorithm_name("SHA-256").set_salt_value("b2xkLXNhbHQtb2xkLXNhbHQ=").set_hash_value("b2xkLWhhc2g=").set_spin_count(prior_spin);
                    }
                    p.set_password(&password);
                    if twice {
                        first_salt = p.get_salt_value().to_string();
                        p.set_password(&password);
                    }
                }
                "workbook" => {
                    let p = book.get_workbook_protection_mut();
                    p.set_lock_structure(true);
                    if legacy_first {
                        p.set_workbook_password_raw("CBEB");
                    }
                    if prior {
                        p.set_workbook_algorithm_name("SHA-256").set_workbook_salt_value("b2xkLXNhbHQtb2xkLXNhbHQ=").set_workbook_hash_value("b2xkLWhhc2g=").set_workbook_spin_count(prior_spin);
                    }
                    p.set_workbook_password(&password);
                    if twice {
                        first_salt = p.get_workbook_salt_value().to_string();
                        p.set_workbook_password(&password);
                    }
                }
                _ => {
                    let p = book.get_workbook_protection_mut();
                    p.set_lock_revision(true);
                    if legacy_first {
                        p.set_revisions_password_raw("CBEB");
                    }
                    if prior {
                        p.set_revisions_algorithm_name("SHA-256").set_revisions_salt_value("b2xkLXNhbHQtb2xkLXNhbHQ=").set_revisions_hash_value("b2xkLWhhc2g=").set_revisions_spin_count(prior_spin);
                    }
                    // a third of the records also get a workbook password before and another one after: the two kinds share the record
                    if k % 3 == 2 {
                        p.set_workbook_password("first-workbook-password");
                    }
                    p.set_revisions_password(&password);
                    if k % 3 == 2 {
                        p.set_workbook_password("second-workbook-password");
                    }
                    if twice {
                        first_salt = p.get_revisions_salt_value().to_string();
                        p.set_revisions_password(&password);
                    }
                }
            }
        });
        o.observations += 1;
        o.nontrivial = true;
        o.hash = fnv(&format!("{}|{}|{}", kind, password, k));
        o.feat(&format!("kind:{}", kind));
        if legacy_first {
            o.feat("legacy-raw-password-before");
        }
        if prior {
            o.feat("hash-parameters-present-before");
        }
        o.descr = jo(vec![("kind", js(kind)), ("password_chars", J::I(password.chars().count() as i64)), ("legacy_first", J::B(legacy_first))]);
        let mut status = "ok".to_string();
        if let Err(e) = r {
            status = format!("panic: {}", e);
        }
        let before = params(&book, kind);
        let mut after = vec![];
        if status == "ok" {
            match save(&book, false) {
                Ok(bytes) => {
                    std::fs::write(format!("{}/case-{}.xlsx", args.out, k), &bytes).unwrap();
                    match load(&bytes) {
                        Ok(b2) => after = params(&b2, kind),
                        Err(e) => status = e,
                    }
                }
                Err(e) => status = e,
            }
        }
        let line = jo(vec![
            ("case", J::I(k as i64)),
            ("seed", J::I(seed as i64)),
            ("kind", js(kind)),
            ("password", js(&password)),
            ("status", js(status)),
            ("legacy_first", J::B(legacy_first)),
            ("first_salt", js(&first_salt)),
            ("before", jparams(&before)),
            ("after", jparams(&after)),
        ]);
        writeln!(meta.lock().unwrap(), "{}", line.to_string()).unwrap();
        o
    });
    meta.lock().unwrap().flush().unwrap();
    finish(args, agg, vec![]);
}
