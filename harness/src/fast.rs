//! Formula AST shared by C08 / C09: generator over the spreadsheet expression grammar, renderer,
//! feature extraction, an independent reference shifter that works on the AST (never on text),
//! and the blank normaliser the properties allow.
#![allow(dead_code)]
use crate::common::*;
use std::collections::BTreeSet;

#[derive(Clone, Debug, PartialEq)]
pub struct CellRef {
    pub col: u32,
    pub row: u32,
    pub lc: bool,
    pub lr: bool,
}
#[derive(Clone, Debug, PartialEq)]
pub enum RefKind {
    Cell(CellRef),
    Range(CellRef, CellRef),
    Cols(u32, bool, u32, bool),
    Rows(u32, bool, u32, bool),
}
#[derive(Clone, Debug, PartialEq)]
pub struct Ref {
    pub sheet: Option<String>,
    pub kind: RefKind,
}
#[derive(Clone, Debug, PartialEq)]
pub enum Ast {
    Num(String),
    Str(String),
    Bool(bool),
    Err(&'static str),
    Ref(Ref),
    /// reference that has become #REF! (only produced by the shifter)
    RefErr(Option<String>),
    Name(String),
    /// structured or external reference: opaque text that must never change
    Opaque(String),
    Bin(Box<Ast>, &'static str, Box<Ast>, bool),
    Un(&'static str, Box<Ast>),
    Pct(Box<Ast>),
    Paren(Box<Ast>),
    Func(&'static str, Vec<Ast>, bool),
    Isect(Box<Ast>, Box<Ast>),
    Union(Vec<Ast>),
    Array(Vec<Vec<Ast>>),
}

pub fn colname(n: u32) -> String {
    let mut n = n;
    let mut s = String::new();
    while n > 0 {
        let r = (n - 1) % 26;
        s.insert(0, (b'A' + r as u8) as char);
        n = (n - 1) / 26;
    }
    s
}
pub fn needs_quote(s: &str) -> bool {
    let first_digit = s.chars().next().map(|c| c.is_ascii_digit()).unwrap_or(false);
    let plain = s.chars().all(|c| c.is_ascii_alphanumeric() || c == '_');
    // names that look like a cell reference (A1, XFD12) or R1C1 must be quoted as well
    let looks_like_ref = {
        let letters: String = s.chars().take_while(|c| c.is_ascii_alphabetic()).collect();
        let digits: String = s.chars().skip(letters.len()).collect();
        !letters.is_empty() && letters.len() <= 3 && !digits.is_empty() && digits.chars().all(|c| c.is_ascii_digit())
    };
    !plain || first_digit || looks_like_ref
}
pub fn sheet_prefix(s: &str) -> String {
    if needs_quote(s) {
        format!("'{}'!", s.replace('\'', "''"))
    } else {
        format!("{}!", s)
    }
}
fn cr(c: &CellRef) -> String {
    format!("{}{}{}{}", if c.lc { "$" } else { "" }, colname(c.col), if c.lr { "$" } else { "" }, c.row)
}
pub fn render_ref(r: &Ref) -> String {
    let p = r.sheet.as_ref().map(|s| sheet_prefix(s)).unwrap_or_default();
    let d = |b: bool| if b { "$" } else { "" };
    match &r.kind {
        RefKind::Cell(c) => format!("{}{}", p, cr(c)),
        RefKind::Range(a, b) => format!("{}{}:{}", p, cr(a), cr(b)),
        RefKind::Cols(a, la, b, lb) => format!("{}{}{}:{}{}", p, d(*la), colname(*a), d(*lb), colname(*b)),
        RefKind::Rows(a, la, b, lb) => format!("{}{}{}:{}{}", p, d(*la), a, d(*lb), b),
    }
}

pub fn render(a: &Ast) -> String {
    match a {
        Ast::Num(s) => s.clone(),
        Ast::Str(s) => format!("\"{}\"", s.replace('"', "\"\"")),
        Ast::Bool(b) => (if *b { "TRUE" } else { "FALSE" }).into(),
        Ast::Err(e) => e.to_string(),
        Ast::Name(n) => n.clone(),
        Ast::Opaque(t) => t.clone(),
        Ast::Ref(r) => render_ref(r),
        Ast::RefErr(sheet) => format!("{}#REF!", sheet.as_ref().map(|s| sheet_prefix(s)).unwrap_or_default()),
        Ast::Bin(l, op, r, sp) => {
            let s = if *sp { " " } else { "" };
            format!("{}{}{}{}{}", render(l), s, op, s, render(r))
        }
        Ast::Un(op, x) => format!("{}{}", op, render(x)),
        Ast::Pct(x) => format!("{}%", render(x)),
        Ast::Paren(x) => format!("({})", render(x)),
        Ast::Func(f, args, sp) => format!("{}({})", f, args.iter().map(render).collect::<Vec<_>>().join(if *sp { ", " } else { "," })),
        Ast::Isect(l, r) => format!("{} {}", render(l), render(r)),
        Ast::Union(v) => format!("({})", v.iter().map(render).collect::<Vec<_>>().join(",")),
        Ast::Array(rows) => format!("{{{}}}", rows.iter().map(|r| r.iter().map(render).collect::<Vec<_>>().join(",")).collect::<Vec<_>>().join(";")),
    }
}

/// map every node; `f` rewrites references
pub fn map_refs(a: &Ast, f: &dyn Fn(&Ref) -> Ast) -> Ast {
    let m = |x: &Ast| Box::new(map_refs(x, f));
    match a {
        Ast::Ref(r) => f(r),
        Ast::Bin(l, op, r, sp) => Ast::Bin(m(l), op, m(r), *sp),
        Ast::Un(op, x) => Ast::Un(op, m(x)),
        Ast::Pct(x) => Ast::Pct(m(x)),
        Ast::Paren(x) => Ast::Paren(m(x)),
        Ast::Func(n, args, sp) => Ast::Func(n, args.iter().map(|x| map_refs(x, f)).collect(), *sp),
        Ast::Isect(l, r) => Ast::Isect(m(l), m(r)),
        Ast::Union(v) => Ast::Union(v.iter().map(|x| map_refs(x, f)).collect()),
        Ast::Array(rows) => Ast::Array(rows.iter().map(|r| r.iter().map(|x| map_refs(x, f)).collect()).collect()),
        other => other.clone(),
    }
}
pub fn refs_of<'a>(a: &'a Ast, out: &mut Vec<&'a Ref>) {
    match a {
        Ast::Ref(r) => out.push(r),
        Ast::Bin(l, _, r, _) | Ast::Isect(l, r) => {
            refs_of(l, out);
            refs_of(r, out);
        }
        Ast::Un(_, x) | Ast::Pct(x) | Ast::Paren(x) => refs_of(x, out),
        Ast::Func(_, v, _) | Ast::Union(v) => {
            for x in v {
                refs_of(x, out)
            }
        }
        Ast::Array(rows) => {
            for r in rows {
                for x in r {
                    refs_of(x, out)
                }
            }
        }
        _ => {}
    }
}

// ------------------------------------------------------------ structural edits
#[derive(Clone, Copy, Debug)]
pub struct Edit {
    pub is_row: bool,
    pub insert: bool,
    pub p: u32,
    pub n: u32,
}
pub fn map1(x: u32, e: &Edit) -> Option<u32> {
    if e.insert {
        Some(if x >= e.p { x + e.n } else { x })
    } else if x < e.p {
        Some(x)
    } else if x < e.p + e.n {
        None
    } else {
        Some(x - e.n)
    }
}
fn map_span(a: u32, b: u32, e: &Edit) -> Option<(u32, u32)> {
    // the corners of a range may come in either order (AB1:$AA3 arises when a shared formula is translated and only one
    // corner is locked): the range is the span between them, and each corner keeps the end it holds
    if a > b {
        return map_span(b, a, e).map(|(lo, hi)| (hi, lo));
    }
    if e.insert {
        Some((map1(a, e).unwrap(), map1(b, e).unwrap()))
    } else {
        if a >= e.p && b < e.p + e.n {
            return None;
        }
        let a2 = if a < e.p { a } else if a < e.p + e.n { e.p } else { a - e.n };
        let b2 = if b < e.p { b } else if b < e.p + e.n { e.p - 1 } else { b - e.n };
        Some((a2, b2))
    }
}
/// `$` is irrelevant for insert/remove; None = the target was deleted
pub fn shift_ref(r: &Ref, e: &Edit) -> Option<Ref> {
    let k = match &r.kind {
        RefKind::Cell(c) => {
            let mut c = c.clone();
            if e.is_row {
                c.row = map1(c.row, e)?;
            } else {
                c.col = map1(c.col, e)?;
            }
            RefKind::Cell(c)
        }
        RefKind::Range(a, b) => {
            let (mut a, mut b) = (a.clone(), b.clone());
            if e.is_row {
                let (x, y) = map_span(a.row, b.row, e)?;
                a.row = x;
                b.row = y;
            } else {
                let (x, y) = map_span(a.col, b.col, e)?;
                a.col = x;
                b.col = y;
            }
            RefKind::Range(a, b)
        }
        RefKind::Cols(a, la, b, lb) => {
            if e.is_row {
                r.kind.clone()
            } else {
                let (x, y) = map_span(*a, *b, e)?;
                RefKind::Cols(x, *la, y, *lb)
            }
        }
        RefKind::Rows(a, la, b, lb) => {
            if !e.is_row {
                r.kind.clone()
            } else {
                let (x, y) = map_span(*a, *b, e)?;
                RefKind::Rows(x, *la, y, *lb)
            }
        }
    };
    Some(Ref { sheet: r.sheet.clone(), kind: k })
}
/// expected formula after `edit` on sheet `edited`, for a formula living on sheet `own`
pub fn shift_ast(a: &Ast, own: &str, edited: &str, e: &Edit) -> Ast {
    map_refs(a, &|r: &Ref| {
        let target = r.sheet.as_deref().unwrap_or(own);
        if target == edited {
            match shift_ref(r, e) {
                Some(r2) => Ast::Ref(r2),
                None => Ast::RefErr(r.sheet.clone()),
            }
        } else {
            Ast::Ref(r.clone())
        }
    })
}
/// does the edit leave the grid for some reference of the formula (insert pushing past the limits)?
pub fn pushes_off_grid(a: &Ast, own: &str, edited: &str, e: &Edit) -> bool {
    let mut v = vec![];
    refs_of(a, &mut v);
    v.iter().any(|r| {
        r.sheet.as_deref().unwrap_or(own) == edited && e.insert && {
            let (maxc, maxr) = match &r.kind {
                RefKind::Cell(c) => (c.col, c.row),
                RefKind::Range(_, b) => (b.col, b.row),
                RefKind::Cols(_, _, b, _) => (*b, 0),
                RefKind::Rows(_, _, b, _) => (0, *b),
            };
            (e.is_row && maxr + e.n > 1_048_576) || (!e.is_row && maxc + e.n > 16384)
        }
    })
}

/// translation by (dc, dr): only non-`$` parts move; leaving the grid yields #REF!
pub fn translate_ast(a: &Ast, dc: i64, dr: i64) -> Ast {
    map_refs(a, &|r: &Ref| {
        let mv = |c: &CellRef| -> Option<CellRef> {
            let col = if c.lc { c.col as i64 } else { c.col as i64 + dc };
            let row = if c.lr { c.row as i64 } else { c.row as i64 + dr };
            if col < 1 || row < 1 || col > 16384 || row > 1_048_576 {
                None
            } else {
                Some(CellRef { col: col as u32, row: row as u32, lc: c.lc, lr: c.lr })
            }
        };
        let one = |x: u32, lock: bool, d: i64, max: i64| -> Option<u32> {
            let v = if lock { x as i64 } else { x as i64 + d };
            if v < 1 || v > max {
                None
            } else {
                Some(v as u32)
            }
        };
        let k = match &r.kind {
            RefKind::Cell(c) => mv(c).map(RefKind::Cell),
            RefKind::Range(a, b) => match (mv(a), mv(b)) {
                (Some(a), Some(b)) => Some(RefKind::Range(a, b)),
                _ => None,
            },
            RefKind::Cols(a, la, b, lb) => match (one(*a, *la, dc, 16384), one(*b, *lb, dc, 16384)) {
                (Some(x), Some(y)) => Some(RefKind::Cols(x, *la, y, *lb)),
                _ => None,
            },
            RefKind::Rows(a, la, b, lb) => match (one(*a, *la, dr, 1_048_576), one(*b, *lb, dr, 1_048_576)) {
                (Some(x), Some(y)) => Some(RefKind::Rows(x, *la, y, *lb)),
                _ => None,
            },
        };
        match k {
            Some(k) => Ast::Ref(Ref { sheet: r.sheet.clone(), kind: k }),
            None => Ast::RefErr(r.sheet.clone()),
        }
    })
}

// ------------------------------------------------------------ features
pub fn features(a: &Ast, f: &mut BTreeSet<&'static str>) {
    match a {
        Ast::Num(s) => {
            if s.contains('E') {
                f.insert("sci");
            }
        }
        Ast::Str(s) => {
            if s.contains('"') {
                f.insert("str-dquote");
            }
            if s.contains('\'') {
                f.insert("str-squote");
            }
            if s.contains(' ') || s.contains(',') || s.contains('(') {
                f.insert("str-punct");
            }
            if s.contains('[') || s.contains('{') || s.contains('#') {
                f.insert("str-bracket");
            }
        }
        Ast::Bool(_) => {}
        Ast::Err(_) => {
            f.insert("errlit");
        }
        Ast::RefErr(_) => {}
        Ast::Name(n) => {
            f.insert("name");
            let up: String = n.chars().take_while(|c| c.is_ascii_uppercase()).collect();
            if !up.is_empty() && up.len() <= 3 {
                f.insert("name-reflike");
            }
        }
        Ast::Opaque(t) => {
            f.insert(if t.contains('!') { "external-ref" } else { "structured-ref" });
        }
        Ast::Ref(r) => {
            if let Some(s) = &r.sheet {
                f.insert("sheet-qualified");
                if needs_quote(s) {
                    f.insert("sheet-quoted");
                }
                if s.contains('\'') {
                    f.insert("sheet-apostrophe");
                }
            }
            match &r.kind {
                RefKind::Cell(c) => {
                    if c.lc || c.lr {
                        f.insert("abs");
                    }
                }
                RefKind::Range(a, b) => {
                    f.insert("range");
                    if a.lc || a.lr || b.lc || b.lr {
                        f.insert("abs");
                    }
                }
                RefKind::Cols(_, la, _, lb) => {
                    f.insert("wholecol");
                    if *la || *lb {
                        f.insert("abs");
                    }
                }
                RefKind::Rows(_, la, _, lb) => {
                    f.insert("wholerow");
                    if *la || *lb {
                        f.insert("abs");
                    }
                }
            }
        }
        Ast::Bin(l, _, r, sp) => {
            if *sp {
                f.insert("blank-around-op");
            }
            features(l, f);
            features(r, f);
        }
        Ast::Un(op, x) => {
            f.insert(if *op == "+" { "unary-plus" } else { "unary-minus" });
            features(x, f);
        }
        Ast::Pct(x) => {
            f.insert("percent");
            features(x, f);
        }
        Ast::Paren(x) => features(x, f),
        Ast::Func(_, args, sp) => {
            if *sp {
                f.insert("blank-after-comma");
            }
            if args.is_empty() {
                f.insert("func-noargs");
            }
            for x in args {
                features(x, f);
            }
        }
        Ast::Isect(l, r) => {
            f.insert("intersection");
            features(l, f);
            features(r, f);
        }
        Ast::Union(v) => {
            f.insert("union");
            for x in v {
                features(x, f);
            }
        }
        Ast::Array(rows) => {
            f.insert("array");
            for r in rows {
                for x in r {
                    features(x, f);
                }
            }
        }
    }
}

// ------------------------------------------------------------ generator
pub struct GenCfg<'a> {
    pub sheets: &'a [String],
    /// features the formula may contain; anything else is never generated
    pub allow: &'a BTreeSet<&'static str>,
    pub w: u32,
    pub h: u32,
    /// generate references anywhere on the grid (C09 translations) instead of a small window
    pub wide: bool,
}
fn allowed(cfg: &GenCfg, f: &str) -> bool {
    cfg.allow.contains(f)
}
fn gen_cellref(r: &mut Rng, cfg: &GenCfg) -> CellRef {
    let abs = allowed(cfg, "abs");
    let (col, row) = if cfg.wide && r.chance(1, 3) {
        (*r.pick(&[1u32, 2, 26, 27, 702, 703, 16383, 16384]), *r.pick(&[1u32, 2, 99, 1000, 1_048_575, 1_048_576]))
    } else {
        (r.range(1, cfg.w), r.range(1, cfg.h))
    };
    CellRef { col, row, lc: abs && r.chance(1, 3), lr: abs && r.chance(1, 3) }
}
pub fn gen_ref(r: &mut Rng, cfg: &GenCfg) -> Ref {
    let sheet = if allowed(cfg, "sheet-qualified") && r.chance(1, 3) {
        let cands: Vec<&String> = cfg.sheets.iter().filter(|s| (allowed(cfg, "sheet-quoted") || !needs_quote(s)) && (allowed(cfg, "sheet-apostrophe") || !s.contains('\''))).collect();
        if cands.is_empty() {
            None
        } else {
            Some((*r.pick(&cands)).clone())
        }
    } else {
        None
    };
    let abs = allowed(cfg, "abs");
    let kind = match r.below(12) {
        0..=4 => RefKind::Cell(gen_cellref(r, cfg)),
        5..=7 if allowed(cfg, "range") => {
            let a = gen_cellref(r, cfg);
            let mut b = gen_cellref(r, cfg);
            b.col = r.range(a.col, a.col.max(cfg.w));
            b.row = r.range(a.row, a.row.max(cfg.h));
            RefKind::Range(a, b)
        }
        8 | 9 if allowed(cfg, "wholecol") => {
            let a = r.range(1, cfg.w);
            let both = abs && r.chance(1, 4);
            RefKind::Cols(a, both || abs && r.chance(1, 4), r.range(a, cfg.w), both || abs && r.chance(1, 4))
        }
        10 | 11 if allowed(cfg, "wholerow") => {
            let a = r.range(1, cfg.h);
            let both = abs && r.chance(1, 4);
            RefKind::Rows(a, both || abs && r.chance(1, 4), r.range(a, cfg.h), both || abs && r.chance(1, 4))
        }
        _ => RefKind::Cell(gen_cellref(r, cfg)),
    };
    Ref { sheet, kind }
}
pub fn gen(r: &mut Rng, d: u32, cfg: &GenCfg) -> Ast {
    let leaf = d == 0 || r.chance(1, 3);
    if leaf {
        for _ in 0..8 {
            let cand = match r.below(16) {
                0..=6 => Some(Ast::Ref(gen_ref(r, cfg))),
                7 => Some(Ast::Num((*r.pick(&["1", "0.5", "42", "100", "3.14159", "0"])).to_string())),
                8 if allowed(cfg, "sci") => Some(Ast::Num((*r.pick(&["1E+5", "2.5E-3", "1E+20"])).to_string())),
                9 => {
                    let mut pool: Vec<&str> = vec!["abc", "", "A1", "TRUE", "x"];
                    if allowed(cfg, "str-punct") {
                        pool.extend(["a b", "x,y", "f(x)", " pad ", "1+2"]);
                    }
                    if allowed(cfg, "str-dquote") {
                        pool.extend(["say \"hi\"", "\"", "a\"\"b"]);
                    }
                    if allowed(cfg, "str-squote") {
                        pool.extend(["it's", "'q'", "'Sheet 1'!A1"]);
                    }
                    if allowed(cfg, "str-bracket") {
                        pool.extend(["[x]", "{1,2}", "#REF!", "a[b"]);
                    }
                    Some(Ast::Str((*r.pick(&pool)).to_string()))
                }
                10 => Some(Ast::Bool(r.chance(1, 2))),
                11 if allowed(cfg, "errlit") => Some(Ast::Err(*r.pick(&["#N/A", "#REF!", "#DIV/0!", "#VALUE!", "#NAME?", "#NUM!", "#NULL!", "Data2!#REF!", "Sheet1!#REF!", "'Q#1'!#REF!", "'a#b'!#REF!"]))),
                12 if allowed(cfg, "name") => {
                    let mut pool: Vec<&str> = vec!["MyName", "rate", "total_2024", "_x", "Über"];
                    if allowed(cfg, "name-reflike") {
                        pool.extend(["Q1_sales", "TAX", "AB12x", "A1B"]);
                    }
                    Some(Ast::Name((*r.pick(&pool)).to_string()))
                }
                13 if allowed(cfg, "array") => Some(Ast::Array(vec![vec![Ast::Num("1".into()), Ast::Num("2".into())], vec![Ast::Num("3".into()), Ast::Str("z".into())]])),
                14 if allowed(cfg, "structured-ref") => Some(Ast::Opaque((*r.pick(&["Table1[Col1]", "Table1[[#This Row],[Amount]]", "T[#All]"])).to_string())),
                15 if allowed(cfg, "external-ref") => Some(Ast::Opaque((*r.pick(&["[1]Sheet1!A1", "[2]Data!$B$2:$C$3", "'[1]My Sheet'!A1", "[2]Data2!B2:C3", "[3]Data2!$A$1", "'[Book 2.xlsx]Data2'!A5:B6"])).to_string())),
                _ => None,
            };
            if let Some(c) = cand {
                return c;
            }
        }
        return Ast::Num("7".into());
    }
    let sp = allowed(cfg, "blank-around-op") && r.chance(1, 4);
    match r.below(13) {
        0..=3 => Ast::Bin(Box::new(gen(r, d - 1, cfg)), *r.pick(&["+", "-", "*", "/", "^", "&", "=", "<>", "<=", ">=", "<", ">"]), Box::new(gen(r, d - 1, cfg)), sp),
        4 => {
            let op = if allowed(cfg, "unary-plus") && r.chance(1, 3) { "+" } else { "-" };
            Ast::Un(op, Box::new(Ast::Paren(Box::new(gen(r, d - 1, cfg)))))
        }
        5 if allowed(cfg, "percent") => Ast::Pct(Box::new(Ast::Paren(Box::new(gen(r, d - 1, cfg))))),
        6 => Ast::Paren(Box::new(gen(r, d - 1, cfg))),
        7..=9 => {
            let n = r.range(1, 3);
            Ast::Func(*r.pick(&["SUM", "IF", "MAX", "INDEX", "LOG10", "VLOOKUP", "ATAN2", "_xlfn.CONCAT"]), (0..n).map(|_| gen(r, d - 1, cfg)).collect(), allowed(cfg, "blank-after-comma") && r.chance(1, 5))
        }
        10 if allowed(cfg, "func-noargs") => Ast::Func(*r.pick(&["NOW", "PI", "RAND"]), vec![], false),
        11 if allowed(cfg, "intersection") => {
            // either operand may be parenthesised; the left one may be a defined name
            let l = match r.below(6) {
                0 => Ast::Paren(Box::new(Ast::Ref(gen_ref(r, cfg)))),
                1 if allowed(cfg, "name") => Ast::Name("MyName".to_string()),
                _ => Ast::Ref(gen_ref(r, cfg)),
            };
            let rr = if r.chance(1, 3) { Ast::Paren(Box::new(Ast::Ref(gen_ref(r, cfg)))) } else { Ast::Ref(gen_ref(r, cfg)) };
            Ast::Func("SUM", vec![Ast::Isect(Box::new(l), Box::new(rr))], false)
        }
        12 if allowed(cfg, "union") => Ast::Func("SUM", vec![Ast::Union(vec![Ast::Ref(gen_ref(r, cfg)), Ast::Ref(gen_ref(r, cfg))])], false),
        _ => Ast::Bin(Box::new(gen(r, d - 1, cfg)), *r.pick(&["+", "*", "&"]), Box::new(gen(r, d - 1, cfg)), sp),
    }
}

/// every feature tag the generator knows
pub const ALL_FEATURES: &[&str] = &[
    "abs", "range", "wholecol", "wholerow", "sheet-qualified", "sheet-quoted", "sheet-apostrophe", "sci", "str-punct", "str-dquote", "str-squote", "str-bracket", "errlit", "name",
    "name-reflike", "array", "structured-ref", "external-ref", "blank-around-op", "blank-after-comma", "unary-plus", "unary-minus", "percent", "func-noargs", "intersection", "union",
];

/// Remove blanks adjacent to an operator / separator / parenthesis outside literals: the
/// properties allow exactly those to disappear.
pub fn norm(s: &str) -> String {
    let ch: Vec<char> = s.chars().collect();
    let mut out = String::new();
    let mut i = 0;
    let mut in_s = false;
    let mut in_q = false;
    let mut depth_br = 0;
    let ops = "+-*/^&=<>,(){};";
    while i < ch.len() {
        let c = ch[i];
        if in_s {
            out.push(c);
            if c == '"' {
                if i + 1 < ch.len() && ch[i + 1] == '"' {
                    out.push('"');
                    i += 1;
                } else {
                    in_s = false;
                }
            }
            i += 1;
            continue;
        }
        if in_q {
            out.push(c);
            if c == '\'' {
                if i + 1 < ch.len() && ch[i + 1] == '\'' {
                    out.push('\'');
                    i += 1;
                } else {
                    in_q = false;
                }
            }
            i += 1;
            continue;
        }
        if depth_br > 0 {
            out.push(c);
            if c == '[' {
                depth_br += 1;
            }
            if c == ']' {
                depth_br -= 1;
            }
            i += 1;
            continue;
        }
        if c == '"' {
            in_s = true;
            out.push(c);
            i += 1;
            continue;
        }
        if c == '\'' {
            in_q = true;
            out.push(c);
            i += 1;
            continue;
        }
        if c == '[' {
            depth_br = 1;
            out.push(c);
            i += 1;
            continue;
        }
        if c == ' ' {
            let mut j = i;
            while j < ch.len() && ch[j] == ' ' {
                j += 1;
            }
            let prev = out.chars().last();
            let next = ch.get(j).copied();
            // a blank between two operands is the intersection operator and stays, also when one of the operands is
            // parenthesised: "B2 (A1:C3)", "(A1:C3) (B2:D4)", "(A1:C3) B2"
            let operand_end = |p: char| p.is_alphanumeric() || matches!(p, ')' | '"' | '\'' | ']' | '}' | '_' | '.' | '!');
            let operand_start = |n: char| n.is_alphanumeric() || matches!(n, '(' | '$' | '\'' | '[' | '_' | '#');
            let intersection = prev.map(operand_end).unwrap_or(false) && next.map(operand_start).unwrap_or(false);
            let drop = !intersection && (prev.map(|p| ops.contains(p)).unwrap_or(true) || next.map(|n| ops.contains(n) || n == '%').unwrap_or(true));
            if !drop {
                out.push(' ');
            }
            i = j;
            continue;
        }
        out.push(c);
        i += 1;
    }
    out
}

/// `'Data2'!A1` and `Data2!A1` designate the same thing: canonical form of a sheet-qualified reference
/// as printed by the library for defined names (quoting is optional where it is not required).
pub fn canon_qualified(s: &str) -> String {
    match s.rsplit_once('!') {
        Some((q, r)) => {
            let name = match q.strip_prefix('\'').and_then(|v| v.strip_suffix('\'')) {
                Some(inner) => inner.replace("''", "'"),
                None => q.to_string(),
            };
            format!("{}\u{1}!{}", name, r)
        }
        None => s.to_string(),
    }
}
