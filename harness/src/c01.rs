//! C01: cell content survives save and reload (both writers).
//! Oracle: the pre-save dump of the same workbook, compared with the dump of the reloaded file.
use crate::common::*;
use crate::dump::*;
use crate::gen::*;
use std::collections::BTreeMap;

pub fn fill_cells(rng: &mut Rng, ws: &mut umya_spreadsheet::Worksheet, ncells: u32, ctrl: bool, padded_cached: bool, uid: &mut u32, o: &mut Outcome) {
    for _ in 0..ncells {
        let pos = position(rng);
        let cell = ws.get_cell_mut(pos);
        match rng.below(16) {
            0..=3 => {
                let t = hostile_text(rng, ctrl, uid);
                if t.trim() != t {
                    o.count("text.padded", 1);
                }
                if t.contains('\r') {
                    o.count("text.cr", 1);
                }
                if t.chars().any(|c| c as u32 > 0xFFFF) {
                    o.count("text.nonbmp", 1);
                }
                cell.set_value_string(t);
                o.count("kind.text", 1);
            }
            4 => {
                cell.set_rich_text(rich_text(rng, ctrl, uid));
                o.count("kind.rich", 1);
            }
            5..=7 => {
                cell.set_value_number(hostile_number(rng));
                o.count("kind.number", 1);
            }
            8 => {
                cell.set_value_bool(rng.chance(1, 2));
                o.count("kind.bool", 1);
            }
            9 => {
                cell.set_error(*rng.pick(ERRORS));
                o.count("kind.error", 1);
            }
            10 => {
                // value guessing path
                let t = hostile_text(rng, false, uid);
                cell.set_value(t);
                o.count("kind.guessed", 1);
            }
            _ => {
                // formula (reference-free or simple) with a cached result of every kind
                let f = *rng.pick(&["1+1", "SUM(1,2)*3", "\"a\"&\"<b>\"", "IF(TRUE,\"x y\",0)", "A1+B2", "NA()", "1/0", "PI()", "TODAY()", "\"  pad  \"", "1=1", "UPPER(\"é&\")"]);
                // Excel has no formula with a rich-text result; clear what an earlier step may have put here
                cell.set_blank();
                cell.set_formula(f);
                match if padded_cached { rng.below(6) } else { rng.below(5) } {
                    0 => {
                        cell.set_formula_result_default(format!("{}", hostile_number(rng)));
                        o.count("formula.cached-number", 1);
                    }
                    1 => {
                        cell.set_formula_result_default(*rng.pick(&["TRUE", "FALSE"]));
                        o.count("formula.cached-bool", 1);
                    }
                    2 => {
                        cell.set_formula_result_default(*rng.pick(ERRORS));
                        o.count("formula.cached-error", 1);
                    }
                    3 => {
                        o.count("formula.cached-blank", 1);
                    }
                    4 if rng.chance(1, 4) => {
                        // a text result that reads like an error value (e.g. the result of ="#N/A") stays text
                        cell.set_formula_result_default("");
                        cell.set_value_string(*rng.pick(&["#N/A", "#DIV/0!", "#n/a", "#REF!", "#VALUE!x"]));
                        cell.set_formula(f);
                        o.count("formula.cached-text-like-error", 1);
                    }
                    4 => {
                        let t = format!("res{} <&> é😀", uid);
                        cell.set_formula_result_default(t);
                        o.count("formula.cached-text", 1);
                    }
                    _ => {
                        cell.set_formula_result_default(*rng.pick(&[" padded", "padded ", "  both  ", "a\nb", "\ttab"]));
                        o.count("formula.cached-padded-text", 1);
                    }
                }
                o.count("kind.formula", 1);
            }
        }
    }
    // strings that differ only in their kind of line break are different strings
    if ncells > 0 && rng.chance(1, 5) {
        *uid += 1;
        for (j, br) in ["\r\n", "\n", "\r"].iter().enumerate() {
            ws.get_cell_mut((40 + j as u32, 7)).set_value_string(format!("line{}{}break", uid, br));
        }
        o.count("strings-differing-in-line-break-only", 1);
    }
    // merged ranges over existing cells: every cell keeps what it holds, whether it is the corner of the range or not
    if ncells > 0 && rng.chance(1, 4) {
        let cells: Vec<(u32, u32)> = ws.get_cell_collection_sorted().iter().map(|x| (*x.get_coordinate().get_col_num(), *x.get_coordinate().get_row_num())).filter(|p| p.0 > 1 && p.1 > 1 && p.0 < 16_000 && p.1 < 1_000_000).collect();
        for _ in 0..rng.range(1, 3) {
            if cells.is_empty() {
                break;
            }
            let (c, r) = *rng.pick(&cells);
            let a = umya_spreadsheet::helper::coordinate::coordinate_from_index(&(c - 1), &(r - 1));
            let b = umya_spreadsheet::helper::coordinate::coordinate_from_index(&(c + rng.range(0, 2)), &(r + rng.range(0, 2)));
            ws.add_merge_cells(format!("{}:{}", a, b));
            o.count("merged-ranges-over-cells", 1);
        }
    }
    // a table over a block of cells: being the header or a body cell of a table does not change what kind of value a cell holds
    if ncells > 0 && rng.chance(1, 4) {
        *uid += 1;
        let (c1, r1, w, h) = (rng.range(20, 30), 100 + rng.range(0, 50), rng.range(1, 4), rng.range(1, 3));
        let mut t = umya_spreadsheet::Table::new(&format!("T{}", uid), ((c1, r1), (c1 + w - 1, r1 + h)));
        for j in 0..w {
            let cell = ws.get_cell_mut((c1 + j, r1));
            match rng.below(4) {
                0 => {
                    cell.set_value_number((*uid + j) as f64 + 0.5);
                }
                1 => {
                    cell.set_value_bool(j % 2 == 0);
                }
                _ => {
                    cell.set_value_string(format!("head{}-{}", uid, j));
                }
            }
            let name = cell.get_value().to_string();
            t.add_column(umya_spreadsheet::TableColumn::new(&name));
            for i in 1..=h {
                ws.get_cell_mut((c1 + j, r1 + i)).set_value_number((i * 10 + j) as f64);
            }
        }
        ws.add_table(t);
        o.count("tables-over-cells", 1);
    }
    // the other public ways of putting a cell on a sheet, aimed at rows nothing has touched yet
    if ncells > 0 && rng.chance(1, 3) {
        for _ in 0..rng.range(1, 4) {
            *uid += 1;
            let (c, r) = (rng.range(1, 12), 300 + rng.range(0, 400));
            match rng.below(3) {
                0 => {
                    let mut cell = umya_spreadsheet::Cell::default();
                    cell.get_coordinate_mut().set_col_num(c).set_row_num(r);
                    cell.set_value_string(format!("set_cell-{}", uid));
                    ws.set_cell(cell);
                    o.count("placed.set_cell", 1);
                }
                k => {
                    // copy or move an existing cell there
                    let src: Vec<(u32, u32)> = ws.get_cell_collection_sorted().iter().map(|x| (*x.get_coordinate().get_col_num(), *x.get_coordinate().get_row_num())).filter(|p| p.1 < 200_000 && p.0 < 16_000).collect();
                    if !src.is_empty() {
                        let (sc, sr) = *rng.pick(&src);
                        let a1 = umya_spreadsheet::helper::coordinate::coordinate_from_index(&sc, &sr);
                        let rg = format!("{}:{}", a1, a1);
                        let dr = (r as i32 + 1000) - sr as i32;
                        if k == 1 {
                            ws.copy_range(&rg, &dr, &0);
                            o.count("placed.copy_range", 1);
                        } else {
                            ws.move_range(&rg, &dr, &0);
                            o.count("placed.move_range", 1);
                        }
                    }
                }
            }
        }
    }
}

pub fn build(rng: &mut Rng, o: &mut Outcome) -> umya_spreadsheet::Spreadsheet {
    let nsheets = rng.range(1, 4) as usize;
    let names = sheet_names(rng, nsheets);
    let mut book = new_book(&names);
    // control characters XML 1.0 cannot carry are a segregated feature class
    let ctrl = rng.chance(1, 10);
    if ctrl {
        o.feat("xml-illegal-chars");
    }
    let padded_cached = rng.chance(1, 6);
    if padded_cached {
        o.feat("formula-cached-padded-text");
    }
    let mut uid = 0u32;
    let big = rng.chance(1, 12);
    for si in 0..nsheets {
        let ncells = if big { rng.range(300, 1500) } else { rng.range(0, 40) };
        let ws = book.get_sheet_mut(&si).unwrap();
        fill_cells(rng, ws, ncells, ctrl, padded_cached, &mut uid, o);
    }
    book
}

fn context_of(d: &Dump, key: &str) -> String {
    // "sh0/cell/B3/v" -> kind of that cell in dump d (+formula marker)
    let base = key.rsplitn(2, '/').nth(1).unwrap_or("");
    let k = d.get(&format!("{}/k", base)).cloned().unwrap_or_else(|| "absent".into());
    let f = if d.contains_key(&format!("{}/f", base)) { "formula+" } else { "" };
    format!("{}{}", f, k)
}

pub fn compare(pre: &Dump, post: &Dump, o: &mut Outcome, tag: &str) {
    let diffs = diff(pre, post);
    o.observations += pre.len() as u64;
    let mut per_sig: BTreeMap<String, u32> = BTreeMap::new();
    for di in diffs {
        let ctx = context_of(pre, &di.key);
        let sig = match di.class.as_str() {
            "cell/k" => format!("cell/k[{}]:{}->{}", ctx, di.a.clone().unwrap_or("absent".into()), di.b.clone().unwrap_or("absent".into())),
            c if c.starts_with("cell/") => {
                if di.a.is_none() {
                    format!("{}[extra cell]", c)
                } else if di.b.is_none() && !post.contains_key(&format!("{}/k", di.key.rsplitn(2, '/').nth(1).unwrap())) {
                    format!("{}[{}]:lost cell", c, ctx)
                } else {
                    format!("{}[{}]", c, ctx)
                }
            }
            c => c.to_string(),
        };
        let n = per_sig.entry(sig.clone()).or_insert(0);
        *n += 1;
        if *n <= 2 {
            o.div(sig, format!("{} {}: {}", tag, di.key, window(&di.a, &di.b)));
        }
    }
}

pub fn run(args: &Args) {
    let agg = run_cases(args, |seed, k| {
        let mut o = Outcome::default();
        let mut rng = Rng::new(seed, k);
        let book = build(&mut rng, &mut o);
        let pre = match dump_book_guarded(&book, Sections::CELLS) {
            Ok(d) => d,
            Err(e) => {
                o.inconclusive = Some(format!("pre-save dump panicked: {}", e));
                return o;
            }
        };
        o.nontrivial = pre.len() > 4;
        o.hash = fnv(&format!("{:?}", pre));
        o.descr = jo(vec![("sheets", js(pre.get("wb/sheets").cloned().unwrap_or_default())), ("dump_entries", J::I(pre.len() as i64)), ("first_cells", J::A(pre.iter().filter(|(k, _)| k.ends_with("/v")).take(4).map(|(k, v)| js(format!("{}={:?}", k, v.chars().take(40).collect::<String>()))).collect()))]);
        for light in [false, true] {
            let tag = if light { "light" } else { "standard" };
            o.count(&format!("saves.{}", tag), 1);
            let bytes = match save(&book, light) {
                Ok(b) => b,
                Err(e) => {
                    o.div(format!("save-failed:{}", panic_site(&e)), format!("{} writer: {}", tag, e));
                    continue;
                }
            };
            let re = match load(&bytes) {
                Ok(b) => b,
                Err(e) => {
                    o.div(format!("reload-failed:{}", panic_site(&e)), format!("{} writer: {}", tag, e));
                    continue;
                }
            };
            match dump_book_guarded(&re, Sections::CELLS) {
                Ok(post) => compare(&pre, &post, &mut o, tag),
                Err(e) => o.div(format!("dump-after-reload-panicked:{}", panic_site(&e)), e),
            }
        }
        o
    });
    finish(args, agg, vec![]);
}
