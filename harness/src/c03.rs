//! C03: the reader agrees with an independent decoder on valid xlsx files.
//! The harness only observes: it loads every listed file eagerly and writes the public-getter dump;
//! monitors/c03_check.py compares it with the generator's intent / the independent decoder.
use crate::common::*;
use crate::dump::*;
use std::io::Write;
use umya_spreadsheet::*;

pub fn run(args: &Args) {
    let list_path = args.get("list").expect("--list FILE with one xlsx path per line");
    let files: Vec<String> = std::fs::read_to_string(list_path).unwrap().lines().map(|s| s.to_string()).filter(|s| !s.is_empty()).collect();
    let out = std::sync::Mutex::new(std::io::BufWriter::new(std::fs::File::create(format!("{}/dumps.jsonl", args.out)).unwrap()));
    let a2 = Args { cases: files.len() as u64, ..Args::parse() };
    let agg = run_cases(&a2, |_seed, k| {
        let mut o = Outcome::default();
        let path = &files[k as usize];
        let r = guard(|| reader::xlsx::read(std::path::Path::new(path)));
        let line = match r {
            Ok(Ok(book)) => match dump_book_guarded(&book, Sections::ALL) {
                Ok(d) => jo(vec![("file", js(path)), ("status", js("ok")), ("dump", dump_json(&d))]),
                Err(e) => jo(vec![("file", js(path)), ("status", js(format!("dump panic: {}", e)))]),
            },
            Ok(Err(e)) => jo(vec![("file", js(path)), ("status", js(format!("load error: {:?}", e)))]),
            Err(e) => jo(vec![("file", js(path)), ("status", js(format!("load panic: {}", e)))]),
        };
        writeln!(out.lock().unwrap(), "{}", line.to_string()).unwrap();
        o.observations = 1;
        o.nontrivial = true;
        o.hash = fnv(path);
        o.descr = js(path);
        o
    });
    out.lock().unwrap().flush().unwrap();
    finish(&a2, agg, vec![]);
}
