//! C12: a saved file contains only content of the workbook being saved.
//! Histories over several workbook objects (original, clones, reloaded copies); every string carries
//! a unique id. For each save the harness records the file and the set of strings reachable from the
//! workbook at that moment; monitors/c12_check.py reads the string table and inline strings of the
//! file independently and reports every string that is not reachable (and every reachable one missing).
use crate::common::*;
use crate::dump::*;
use std::io::Write;
use umya_spreadsheet::*;

/// state of a workbook that was opened lazily: the file it came from and which sheets are materialised
#[derive(Clone)]
struct LazyInfo {
    origin: String,
    loaded: Vec<bool>,
    names: Vec<String>,
}

fn reachable(book: &Spreadsheet, lazy: &Option<LazyInfo>) -> Vec<String> {
    let mut v = std::collections::BTreeSet::new();
    for (i, ws) in book.get_sheet_collection_no_check().iter().enumerate() {
        if let Some(l) = lazy {
            if !l.loaded.get(i).copied().unwrap_or(true) {
                continue; // strings of unloaded sheets are taken from the origin file by the monitor
            }
        }
        for c in ws.get_cell_collection() {
            match c.get_raw_value() {
                CellRawValue::String(_) | CellRawValue::RichText(_) => {
                    v.insert(c.get_value().to_string());
                }
                _ => {}
            }
        }
    }
    v.into_iter().collect()
}

pub fn run(args: &Args) {
    std::fs::create_dir_all(&args.out).unwrap();
    let meta = std::sync::Mutex::new(std::io::BufWriter::new(std::fs::File::create(format!("{}/saves.jsonl", args.out)).unwrap()));
    let agg = run_cases(args, |seed, k| {
        let mut o = Outcome::default();
        let mut rng = Rng::new(seed, k);
        let mut uid = 0u32;
        let mut books: Vec<Spreadsheet> = vec![];
        let mut lazies: Vec<Option<LazyInfo>> = vec![];
        let mut b0 = new_file();
        if rng.chance(2, 3) {
            b0.new_sheet("Second").unwrap();
            b0.get_sheet_mut(&1).unwrap().get_cell_mut((1, 1)).set_value_string(format!("s{}-second", k));
        }
        if rng.chance(1, 3) {
            b0.new_sheet("Third").unwrap();
            let last = b0.get_sheet_count() - 1;
            b0.get_sheet_mut(&last).unwrap().get_cell_mut((2, 2)).set_value_string(format!("s{}-third", k));
        }
        books.push(b0);
        lazies.push(None);
        let mut hist: Vec<String> = vec![];
        let mut nsaves = 0u32;
        let mut last_saved: Option<(usize, Vec<String>)> = None; // (book, history length marker) for the side-effect-free clause
        let nops = rng.range(4, 30);
        let text = |uid: &mut u32, rng: &mut Rng| {
            *uid += 1;
            match rng.below(5) {
                0 => format!("s{}-{} <&>", k, uid),
                1 => format!(" s{}-{} ", k, uid),
                _ => format!("s{}-{}", k, uid),
            }
        };
        // a workbook with a chart whose categories come from another sheet is not reopened lazily (saving it with that
        // sheet unloaded is the recorded KF-C11-chart-cache-unloaded-sheet)
        let mut cross_chart: Vec<bool> = vec![false];
        // a fifth of the histories start with the life of a lazily opened workbook and its clone: text, lazy reopen, clone,
        // materialise and edit one of the two, save it, save the other one (whose sheets are still raw), in either role
        let script: Vec<(usize, u64)> = if rng.chance(1, 5) {
            let (x, y) = if rng.chance(1, 2) { (1usize, 0usize) } else { (0, 1) };
            vec![(0, 0), (0, 1), (0, 14), (0, 9), (x, 13), (x, 0), (x, 11), (y, 11), (x, 11)]
        } else {
            vec![]
        };
        if !script.is_empty() {
            o.feat("history:lazy-workbook-and-clone");
        }
        for opi in 0..nops.max(script.len() as u32) {
            let mut bi = rng.below(books.len() as u64) as usize;
            let mut op = rng.below(20);
            if let Some(&(b, forced)) = script.get(opi as usize) {
                if b < books.len() {
                    bi = b;
                    op = forced;
                }
            }
            let nsheets = books[bi].get_sheet_count();
            let si = rng.below(nsheets as u64) as usize;
            let pos = (rng.range(1, 5), rng.range(1, 6));
            if op == 19 {
                // a save that fails after its sheets were serialised: a lazily opened workbook whose materialised sheet holds a
                // chart over a sheet that is still unloaded makes the chart writer panic (recorded as KF-C11-chart-cache-unloaded-sheet).
                // Whatever that save registered must not show up in later saves on this thread.
                let r = guard(|| -> Result<Vec<u8>, String> {
                    let mut src = new_file();
                    src.new_sheet("Second").map_err(|e| e.to_string())?;
                    let mut from = umya_spreadsheet::structs::drawing::spreadsheet::MarkerType::default();
                    let mut to = umya_spreadsheet::structs::drawing::spreadsheet::MarkerType::default();
                    from.set_coordinate("C3");
                    to.set_coordinate("F9");
                    let mut chart = Chart::default();
                    chart.new_chart(ChartType::LineChart, from, to, vec!["Second!$A$1:$A$3"]);
                    src.get_sheet_mut(&0).unwrap().add_chart(chart);
                    let bytes = save(&src, false)?;
                    let mut doomed = reader::xlsx::read_reader(std::io::Cursor::new(bytes), false).map_err(|e| format!("{:?}", e))?;
                    doomed.get_sheet_mut(&0).unwrap().get_cell_mut((6, 6)).set_value_string(format!("doomed-text-{}-{}", k, opi));
                    save(&doomed, false)
                });
                let _ = bi;
                let failed = !matches!(r, Ok(Ok(_)));
                o.count(if failed { "saves.failing-on-purpose" } else { "saves.meant-to-fail-but-succeeded" }, 1);
                hist.push(format!("a save of a scratch workbook {}", if failed { "FAILED (as intended)" } else { "succeeded" }));
                continue;
            }
            if op >= 15 {
                op = if op == 18 { 14 } else { 11 }; // more saves and lazy reloads
            }
            // a lazily opened workbook mostly keeps working on the sheets it has already materialised,
            // so that other sheets stay unloaded across several saves
            let si = match &lazies[bi] {
                Some(l) if rng.chance(3, 4) => l.loaded.iter().position(|x| *x).unwrap_or(si).min(nsheets - 1),
                _ => si,
            };
            if matches!(op, 0..=7) {
                if let Some(l) = lazies[bi].as_mut() {
                    if si < l.loaded.len() {
                        l.loaded[si] = true; // get_sheet_mut materialises
                    }
                }
            }
            let r = guard(|| match op {
                0..=3 => {
                    let t = text(&mut uid, &mut rng);
                    books[bi].get_sheet_mut(&si).unwrap().get_cell_mut(pos).set_value_string(t.clone());
                    hist.push(format!("book{} sheet{} set {:?} = {:?}", bi, si, pos, t));
                }
                4 => {
                    let mut rt = RichText::default();
                    for _ in 0..2 {
                        let mut te = TextElement::default();
                        te.set_text(text(&mut uid, &mut rng));
                        rt.add_rich_text_elements(te);
                    }
                    books[bi].get_sheet_mut(&si).unwrap().get_cell_mut(pos).set_rich_text(rt);
                    hist.push(format!("book{} sheet{} set rich {:?}", bi, si, pos));
                }
                5 => {
                    books[bi].get_sheet_mut(&si).unwrap().remove_cell(pos);
                    hist.push(format!("book{} sheet{} delete {:?}", bi, si, pos));
                }
                6 if opi % 2 == 0 => {
                    // overwrite with a blank cell that only carries formatting, through set_cell
                    let mut blank = Cell::default();
                    blank.get_coordinate_mut().set_col_num(pos.0).set_row_num(pos.1);
                    blank.get_style_mut().set_background_color("FFFFFF00");
                    books[bi].get_sheet_mut(&si).unwrap().set_cell(blank);
                    hist.push(format!("book{} sheet{} overwrite {:?} with a blank formatted cell (set_cell)", bi, si, pos));
                    // the reachable set is read through getters: make sure the overwrite took place, or the old text would count as reachable
                    let still = books[bi].get_sheet(&si).unwrap().get_cell(pos).map(|c| c.get_value().to_string()).unwrap_or_default();
                    if !still.is_empty() {
                        panic!("overwritten text {:?} is still in the cell after set_cell(blank)", still);
                    }
                }
                6 => {
                    books[bi].get_sheet_mut(&si).unwrap().get_cell_mut(pos).set_value_number(opi as f64);
                    hist.push(format!("book{} sheet{} overwrite {:?} with a number", bi, si, pos));
                }
                7 => {
                    let (p, n) = (rng.range(1, 5), rng.range(1, 2));
                    if rng.chance(1, 2) {
                        books[bi].get_sheet_mut(&si).unwrap().remove_row(&p, &n);
                        hist.push(format!("book{} sheet{} remove rows {}+{}", bi, si, p, n));
                    } else {
                        books[bi].get_sheet_mut(&si).unwrap().remove_column_by_index(&p, &n);
                        hist.push(format!("book{} sheet{} remove columns {}+{}", bi, si, p, n));
                    }
                }
                8 => {
                    if nsheets > 1 {
                        books[bi].remove_sheet(si).unwrap();
                        if let Some(l) = lazies[bi].as_mut() {
                            l.loaded.remove(si);
                            l.names.remove(si);
                        }
                        hist.push(format!("book{} remove sheet {}", bi, si));
                    }
                }
                12 => {
                    // a chart on the first sheet whose category labels are text cells of another sheet: the cached labels are
                    // text of the package too, and must go when that sheet goes
                    if nsheets > 1 && lazies[bi].is_none() {
                        let di = 1 + rng.below(nsheets as u64 - 1) as usize;
                        let dname = books[bi].get_sheet(&di).unwrap().get_name().to_string();
                        for row in 1..=3u32 {
                            let t = text(&mut uid, &mut rng);
                            books[bi].get_sheet_mut(&di).unwrap().get_cell_mut((1, row)).set_value_string(t);
                            books[bi].get_sheet_mut(&di).unwrap().get_cell_mut((2, row)).set_value_number(row as f64);
                        }
                        let mut from = umya_spreadsheet::structs::drawing::spreadsheet::MarkerType::default();
                        let mut to = umya_spreadsheet::structs::drawing::spreadsheet::MarkerType::default();
                        from.set_coordinate("H2");
                        to.set_coordinate("M12");
                        let mut chart = Chart::default();
                        let values = format!("{}!$B$1:$B$3", dname);
                        chart.new_chart(ChartType::BarChart, from, to, vec![values.as_str()]);
                        for series in chart.get_area_chart_series_list_mut().get_area_chart_series_mut() {
                            let mut reference = umya_spreadsheet::drawing::charts::StringReference::default();
                            reference.get_formula_mut().set_address_str(format!("{}!$A$1:$A$3", dname));
                            let mut categories = umya_spreadsheet::drawing::charts::CategoryAxisData::default();
                            categories.set_string_reference(reference);
                            series.set_category_axis_data(categories);
                        }
                        books[bi].get_sheet_mut(&0).unwrap().add_chart(chart);
                        cross_chart[bi] = true;
                        hist.push(format!("book{} chart on sheet0 with labels from sheet{} ({})", bi, di, dname));
                    }
                }
                9 => {
                    if books.len() < 4 {
                        let c = books[bi].clone();
                        books.push(c);
                        cross_chart.push(cross_chart[bi]);
                        let l = lazies[bi].clone();
                        lazies.push(l);
                        hist.push(format!("book{} = clone of book{}", books.len() - 1, bi));
                    }
                }
                13 => {
                    // materialise every sheet of this workbook object (its clones keep their raw sheets)
                    books[bi].read_sheet_collection();
                    if let Some(l) = lazies[bi].as_mut() {
                        l.loaded.iter_mut().for_each(|x| *x = true);
                    }
                    hist.push(format!("book{} read_sheet_collection", bi));
                }
                14 if cross_chart[bi] => {}
                14 => {
                    // reload lazily and continue: sheets stay unloaded until touched
                    if let Ok(bytes) = save(&books[bi], false) {
                        if let Ok(Ok(b)) = guard(|| reader::xlsx::read_reader(std::io::Cursor::new(bytes.clone()), false)) {
                            let origin = format!("case-{}-origin-{}.xlsx", k, hist.len());
                            std::fs::write(format!("{}/{}", args.out, origin), &bytes).unwrap();
                            let names: Vec<String> = b.get_sheet_collection_no_check().iter().map(|w| w.get_name().to_string()).collect();
                            lazies[bi] = Some(LazyInfo { origin, loaded: vec![false; names.len()], names });
                            books[bi] = b;
                            hist.push(format!("book{} = lazy reload(save(book{}))", bi, bi));
                        }
                    }
                }
                10 => {
                    // reload and continue
                    if let Ok(bytes) = save(&books[bi], false) {
                        if let Ok(b) = load(&bytes) {
                            lazies[bi] = None;
                            books[bi] = b;
                            hist.push(format!("book{} = reload(save(book{}))", bi, bi));
                        }
                    }
                }
                _ => {
                    let light = rng.chance(1, 3);
                    let reach = reachable(&books[bi], &lazies[bi]);
                    let res = save(&books[bi], light);
                    nsaves += 1;
                    hist.push(format!("save book{} -> save#{}", bi, nsaves));
                    match res {
                        Ok(bytes) => {
                            let name = format!("case-{}-save-{}.xlsx", k, nsaves);
                            std::fs::write(format!("{}/{}", args.out, name), &bytes).unwrap();
                            let repeat = matches!(&last_saved, Some((b, h)) if *b == bi && h.len() + 1 == hist.len());
                            let line = jo(vec![
                                ("case", J::I(k as i64)),
                                ("seed", J::I(seed as i64)),
                                ("file", js(&name)),
                                ("book", J::I(bi as i64)),
                                ("nbooks", J::I(books.len() as i64)),
                                ("repeat_of_previous", J::B(repeat)),
                                ("reachable", J::A(reach.iter().map(js).collect())),
                                ("created_ids", J::I(uid as i64)),
                                ("lazy_origin", match &lazies[bi] { Some(l) => js(&l.origin), None => J::Null }),
                                ("unloaded_sheets", match &lazies[bi] { Some(l) => J::A(l.names.iter().zip(&l.loaded).filter(|(_, ld)| !**ld).map(|(n, _)| js(n)).collect()), None => J::A(vec![]) }),
                                ("history", J::A(hist.iter().map(js).collect())),
                            ]);
                            writeln!(meta.lock().unwrap(), "{}", line.to_string()).unwrap();
                            last_saved = Some((bi, hist.clone()));
                        }
                        Err(e) => {
                            // recorded through the outcome below
                            panic!("{}", e);
                        }
                    }
                }
            });
            if let Err(e) = r {
                o.div(format!("op-panicked:{}", panic_site(&e)), format!("{} after {:?}", e, hist.iter().rev().take(3).collect::<Vec<_>>()));
                break;
            }
        }
        o.count("saves", nsaves as u64);
        o.count("ops", hist.len() as u64);
        o.count("clones", (books.len() - 1) as u64);
        o.nontrivial = nsaves > 0 && uid > 0;
        o.hash = fnv(&hist.join("|"));
        o.observations = nsaves as u64;
        o.descr = J::A(hist.iter().take(12).map(js).collect());
        o
    });
    meta.lock().unwrap().flush().unwrap();
    finish(args, agg, vec![]);
}
