//! minimal package access for in-harness observers (zip crate only; no library code)
#![allow(dead_code)]
use std::io::Read;

pub fn read_part_bytes(xlsx: &[u8], name: &str) -> Result<Vec<u8>, String> {
    let mut z = zip::ZipArchive::new(std::io::Cursor::new(xlsx)).map_err(|e| format!("zip: {}", e))?;
    let mut f = z.by_name(name).map_err(|e| format!("{}: {}", name, e))?;
    let mut v = vec![];
    f.read_to_end(&mut v).map_err(|e| format!("{}: {}", name, e))?;
    Ok(v)
}
pub fn read_part(xlsx: &[u8], name: &str) -> Result<String, String> {
    String::from_utf8(read_part_bytes(xlsx, name)?).map_err(|e| format!("{}: {}", name, e))
}
pub fn list_parts(xlsx: &[u8]) -> Result<Vec<String>, String> {
    let z = zip::ZipArchive::new(std::io::Cursor::new(xlsx)).map_err(|e| format!("zip: {}", e))?;
    Ok(z.file_names().map(|s| s.to_string()).collect())
}

/// every part of the package, decompressed
pub fn all_parts(xlsx: &[u8]) -> Result<std::collections::BTreeMap<String, Vec<u8>>, String> {
    let mut z = zip::ZipArchive::new(std::io::Cursor::new(xlsx)).map_err(|e| format!("zip: {}", e))?;
    let mut m = std::collections::BTreeMap::new();
    for i in 0..z.len() {
        let mut f = z.by_index(i).map_err(|e| format!("zip entry {}: {}", i, e))?;
        let mut v = vec![];
        f.read_to_end(&mut v).map_err(|e| format!("{}: {}", f.name(), e))?;
        m.insert(f.name().to_string(), v);
    }
    Ok(m)
}

/// write a package from parts (deflate)
pub fn build(parts: &std::collections::BTreeMap<String, Vec<u8>>) -> Result<Vec<u8>, String> {
    use std::io::Write;
    let mut z = zip::ZipWriter::new(std::io::Cursor::new(Vec::new()));
    for (name, body) in parts {
        z.start_file(name.as_str(), zip::write::SimpleFileOptions::default().compression_method(zip::CompressionMethod::DEFLATE)).map_err(|e| format!("{}: {}", name, e))?;
        z.write_all(body).map_err(|e| format!("{}: {}", name, e))?;
    }
    Ok(z.finish().map_err(|e| format!("zip finish: {}", e))?.into_inner())
}
