//! "What a user can see through getters": a flat key -> value dump of a workbook, used as the
//! observation in every save/reload, re-save, lazy/eager and structural-edit monitor.
#![allow(dead_code)]
use crate::common::*;
use std::collections::BTreeMap;
use umya_spreadsheet::*;

pub type Dump = BTreeMap<String, String>;

#[derive(Clone, Copy)]
pub struct Sections {
    pub cells: bool,
    pub styles: bool,
    pub dims: bool,
    pub annotations: bool,
    pub sheet_list: bool,
}
impl Sections {
    pub const ALL: Sections = Sections { cells: true, styles: true, dims: true, annotations: true, sheet_list: true };
    pub const CELLS: Sections = Sections { cells: true, styles: false, dims: false, annotations: false, sheet_list: true };
    pub const STYLES: Sections = Sections { cells: false, styles: true, dims: true, annotations: false, sheet_list: false };
    pub const ANNOT: Sections = Sections { cells: false, styles: false, dims: false, annotations: true, sheet_list: true };
}

fn fbits(v: f64) -> String {
    format!("{:?}", v)
}
fn color_sig(c: &Color) -> String {
    // argb covers indexed + explicit argb; theme index and tint are separate channels
    let theme = if c.get_argb().is_empty() || *c.get_theme_index() != 0 { format!("{}", c.get_theme_index()) } else { "-".into() };
    format!("argb={} theme={} tint={}", c.get_argb(), theme, fbits(*c.get_tint()))
}

/// Effective formatting: `None` components are resolved to the workbook default, because a
/// reloaded cell legitimately shows `Some(default font)` where `None` was stored.
pub fn style_sig(st: &Style, out: &mut Vec<(String, String)>) {
    let def = Style::get_default_value();
    let font = st.get_font().or(def.get_font()).unwrap();
    out.push(("font.name".into(), font.get_name().to_string()));
    out.push(("font.size".into(), fbits(*font.get_size())));
    out.push(("font.bold".into(), font.get_bold().to_string()));
    out.push(("font.italic".into(), font.get_italic().to_string()));
    out.push(("font.underline".into(), font.get_underline().to_string()));
    out.push(("font.strike".into(), font.get_strikethrough().to_string()));
    out.push(("font.color".into(), color_sig(font.get_color())));
    out.push(("font.family".into(), font.get_family().to_string()));
    out.push(("font.charset".into(), font.get_charset().to_string()));
    out.push(("font.scheme".into(), font.get_scheme().to_string()));
    out.push(("font.valign".into(), format!("{:?}", font.get_vertical_text_alignment())));
    match st.get_fill() {
        Some(f) => {
            match f.get_pattern_fill() {
                Some(p) => {
                    out.push(("fill.pattern".into(), p.get_pattern_type().get_value_string().to_string()));
                    out.push(("fill.fg".into(), p.get_foreground_color().map(color_sig).unwrap_or_default()));
                    out.push(("fill.bg".into(), p.get_background_color().map(color_sig).unwrap_or_default()));
                }
                None => {
                    out.push(("fill.pattern".into(), "none".into()));
                    out.push(("fill.fg".into(), String::new()));
                    out.push(("fill.bg".into(), String::new()));
                }
            }
            if let Some(g) = f.get_gradient_fill() {
                let stops: Vec<String> = g.get_gradient_stop().iter().map(|s| format!("{}@{}", color_sig(s.get_color()), fbits(*s.get_position()))).collect();
                out.push(("fill.gradient".into(), format!("deg={} {:?}", fbits(*g.get_degree()), stops)));
            }
        }
        None => {
            out.push(("fill.pattern".into(), "none".into()));
            out.push(("fill.fg".into(), String::new()));
            out.push(("fill.bg".into(), String::new()));
        }
    }
    let b = st.get_borders().or(def.get_borders()).unwrap();
    for (n, e) in [("left", b.get_left()), ("right", b.get_right()), ("top", b.get_top()), ("bottom", b.get_bottom()), ("diagonal", b.get_diagonal())] {
        let style = e.get_border_style().to_string();
        let col = if style.is_empty() || style == "none" { String::new() } else { color_sig(e.get_color()) };
        out.push((format!("border.{}", n), format!("{} {}", if style.is_empty() { "none" } else { &style }, col)));
    }
    out.push(("border.diag_dir".into(), format!("up={} down={}", b.get_diagonal_up(), b.get_diagonal_down())));
    let da = Alignment::default();
    let a = st.get_alignment().unwrap_or(&da);
    out.push(("align.h".into(), a.get_horizontal().get_value_string().to_string()));
    out.push(("align.v".into(), a.get_vertical().get_value_string().to_string()));
    out.push(("align.wrap".into(), a.get_wrap_text().to_string()));
    out.push(("align.rotation".into(), a.get_text_rotation().to_string()));
    out.push(("numfmt.code".into(), st.get_number_format().map(|n| n.get_format_code().to_string()).unwrap_or_else(|| "General".into())));
    match st.get_protection() {
        Some(p) => {
            let mut p2 = p.clone();
            out.push(("prot".into(), format!("locked={} hidden={}", p.get_locked(), p2.get_hidden())));
        }
        None => out.push(("prot".into(), "locked=true hidden=false".into())),
    }
}
pub fn style_string(st: &Style) -> String {
    let mut v = vec![];
    style_sig(st, &mut v);
    v.iter().map(|(k, x)| format!("{}={}", k, x)).collect::<Vec<_>>().join(";")
}
fn default_style_map() -> BTreeMap<String, String> {
    let mut v = vec![];
    style_sig(&Style::default(), &mut v);
    v.into_iter().collect()
}

pub fn rich_sig(rt: &RichText) -> String {
    rt.get_rich_text_elements()
        .iter()
        .map(|e| {
            let f = e.get_font().map(|f| format!("{}/{}/b{}i{}/{}", f.get_name(), fbits(*f.get_size()), f.get_bold(), f.get_italic(), color_sig(f.get_color()))).unwrap_or_else(|| "-".into());
            format!("[{:?} {}]", e.get_text(), f)
        })
        .collect::<Vec<_>>()
        .join("")
}

pub fn kind_of(c: &Cell) -> &'static str {
    match c.get_raw_value() {
        CellRawValue::String(_) => "text",
        CellRawValue::RichText(_) => "rich",
        CellRawValue::Lazy(_) => "lazy",
        CellRawValue::Numeric(_) => "number",
        CellRawValue::Bool(_) => "bool",
        CellRawValue::Error(_) => "error",
        CellRawValue::Empty => "blank",
    }
}

pub fn dump_sheet(ws: &Worksheet, p: &str, sec: Sections, d: &mut Dump) {
    let defstyle = default_style_map();
    if sec.sheet_list {
        d.insert(format!("{}/name", p), ws.get_name().to_string());
        d.insert(format!("{}/state", p), ws.get_sheet_state().to_string());
    }
    for c in ws.get_cell_collection() {
        let co = c.get_coordinate();
        let a1 = if *co.get_col_num() >= 1 { co.get_coordinate() } else { format!("<col0>{}", co.get_row_num()) };
        if sec.cells {
            let kind = kind_of(c);
            let f = c.get_formula();
            if kind != "blank" || !f.is_empty() {
                d.insert(format!("{}/cell/{}/k", p, a1), kind.to_string());
                d.insert(format!("{}/cell/{}/v", p, a1), c.get_value().to_string());
                if let Some(n) = c.get_value_number() {
                    d.insert(format!("{}/cell/{}/n", p, a1), format!("{:016x}", n.to_bits()));
                }
                if !f.is_empty() {
                    d.insert(format!("{}/cell/{}/f", p, a1), f.to_string());
                }
                // the kind of formula is part of what a formula means (an array formula evaluates differently);
                // "shared" is only a storage form of ordinary formulas and is not reported
                if let Some(fo) = c.get_formula_obj() {
                    match fo.get_formula_type() {
                        CellFormulaValues::Array => {
                            d.insert(format!("{}/cell/{}/ftype", p, a1), format!("array ref={}", fo.get_reference()));
                        }
                        CellFormulaValues::DataTable => {
                            d.insert(format!("{}/cell/{}/ftype", p, a1), "dataTable".to_string());
                        }
                        _ => {}
                    }
                }
                if let CellRawValue::RichText(rt) = c.get_raw_value() {
                    d.insert(format!("{}/cell/{}/rich", p, a1), rich_sig(rt));
                }
            }
        }
        if sec.annotations {
            if let Some(h) = c.get_hyperlink() {
                d.insert(format!("{}/link/{}", p, a1), format!("{} {}", if *h.get_location() { "L" } else { "U" }, h.get_url()));
            }
        }
        if sec.styles {
            let mut v = vec![];
            style_sig(c.get_style(), &mut v);
            for (k, x) in v {
                if defstyle.get(&k) != Some(&x) {
                    d.insert(format!("{}/style/{}/{}", p, a1, k), x);
                }
            }
        }
    }
    if sec.dims {
        for r in ws.get_row_dimensions() {
            let rp = format!("{}/row/{}", p, r.get_row_num());
            if *r.get_height() != 0.0 {
                d.insert(format!("{}/h", rp), fbits(*r.get_height()));
            }
            if *r.get_hidden() {
                d.insert(format!("{}/hidden", rp), "true".into());
            }
            let mut v = vec![];
            style_sig(r.get_style(), &mut v);
            for (k, x) in v {
                if defstyle.get(&k) != Some(&x) {
                    d.insert(format!("{}/style.{}", rp, k), x);
                }
            }
        }
        for c in ws.get_column_dimensions() {
            let cp = format!("{}/col/{}", p, c.get_col_num());
            // normal form: a column entry that only carries the library's default width (created as a
            // by-product of get_cell_mut) is not a setting
            if *c.get_width() != 8.38 {
                d.insert(format!("{}/w", cp), fbits(*c.get_width()));
            }
            if *c.get_hidden() {
                d.insert(format!("{}/hidden", cp), "true".into());
            }
            if *c.get_best_fit() {
                d.insert(format!("{}/bestfit", cp), "true".into());
            }
            let mut v = vec![];
            style_sig(c.get_style(), &mut v);
            for (k, x) in v {
                if defstyle.get(&k) != Some(&x) {
                    d.insert(format!("{}/style.{}", cp, k), x);
                }
            }
        }
    }
    if sec.annotations {
        let mut mc: BTreeMap<String, u32> = BTreeMap::new();
        for m in ws.get_merge_cells() {
            *mc.entry(m.get_range()).or_insert(0) += 1;
        }
        for (k, n) in mc {
            d.insert(format!("{}/merge/{}", p, k), n.to_string());
        }
        let mut cc: BTreeMap<String, Vec<String>> = BTreeMap::new();
        for c in ws.get_comments() {
            cc.entry(c.get_coordinate().get_coordinate()).or_default().push(format!("author={:?} text={:?}", c.get_author(), c.get_text().get_text()));
        }
        for (k, mut v) in cc {
            v.sort();
            d.insert(format!("{}/comment/{}", p, k), v.join(" && "));
        }
        if let Some(dvs) = ws.get_data_validations() {
            let mut m: BTreeMap<String, Vec<String>> = BTreeMap::new();
            for dv in dvs.get_data_validation_list() {
                m.entry(dv.get_sequence_of_references().get_sqref()).or_default().push(format!(
                    "type={} op={} blank={} f1={:?} f2={:?} ptitle={:?} prompt={:?} etitle={:?} emsg={:?} showin={} showerr={}",
                    dv.get_type().get_value_string(),
                    dv.get_operator().get_value_string(),
                    dv.get_allow_blank(),
                    dv.get_formula1(),
                    dv.get_formula2(),
                    dv.get_prompt_title(),
                    dv.get_prompt(),
                    dv.get_error_title(),
                    dv.get_error_message(),
                    dv.get_show_input_message(),
                    dv.get_show_error_message()
                ));
            }
            for (k, mut v) in m {
                v.sort();
                d.insert(format!("{}/dv/{}", p, k), v.join(" && "));
            }
        }
        {
            let mut m: BTreeMap<String, Vec<String>> = BTreeMap::new();
            for cf in ws.get_conditional_formatting_collection() {
                let rules: Vec<String> = cf
                    .get_conditional_collection()
                    .iter()
                    .map(|r| {
                        format!(
                            "type={} op={} prio={} text={:?} formula={:?} style={}",
                            r.get_type().get_value_string(),
                            r.get_operator().get_value_string(),
                            r.get_priority(),
                            r.get_text(),
                            r.get_formula().map(|f| f.get_address_str()),
                            r.get_style().map(style_string).unwrap_or_else(|| "-".into())
                        )
                    })
                    .collect();
                m.entry(cf.get_sequence_of_references().get_sqref()).or_default().push(rules.join(" | "));
            }
            for (k, mut v) in m {
                v.sort();
                d.insert(format!("{}/cf/{}", p, k), v.join(" && "));
            }
        }
        if let Some(af) = ws.get_auto_filter() {
            d.insert(format!("{}/autofilter", p), af.get_range().get_range());
        }
        if let Some(c) = ws.get_tab_color() {
            d.insert(format!("{}/tabcolor", p), color_sig(c));
        }
        for (i, v) in ws.get_sheets_views().get_sheet_view_list().iter().enumerate() {
            if let Some(pn) = v.get_pane() {
                d.insert(
                    format!("{}/view{}/pane", p, i),
                    format!("x={} y={} tl={} active={} state={}", fbits(*pn.get_horizontal_split()), fbits(*pn.get_vertical_split()), pn.get_top_left_cell().get_coordinate(), pn.get_active_pane().get_value_string(), pn.get_state().get_value_string()),
                );
            }
            let sels: Vec<String> = v.get_selection().iter().map(|s| format!("pane={} active={:?} sqref={}", s.get_pane().get_value_string(), s.get_active_cell().map(|c| c.get_coordinate()), s.get_sequence_of_references().get_sqref())).collect();
            if !sels.is_empty() {
                d.insert(format!("{}/view{}/sel", p, i), sels.join(" && "));
            }
            if *v.get_zoom_scale() != 0 && *v.get_zoom_scale() != 100 {
                d.insert(format!("{}/view{}/zoom", p, i), v.get_zoom_scale().to_string());
            }
            if !*v.get_show_grid_lines() {
                d.insert(format!("{}/view{}/grid", p, i), "false".into());
            }
        }
        let ps = ws.get_page_setup();
        d.insert(format!("{}/pagesetup", p), format!("paper={} orient={} scale={} fith={} fitw={}", ps.get_paper_size(), ps.get_orientation().get_value_string(), ps.get_scale(), ps.get_fit_to_height(), ps.get_fit_to_width()));
        let pm = ws.get_page_margins();
        d.insert(format!("{}/margins", p), format!("{} {} {} {} {} {}", fbits(*pm.get_left()), fbits(*pm.get_right()), fbits(*pm.get_top()), fbits(*pm.get_bottom()), fbits(*pm.get_header()), fbits(*pm.get_footer())));
        let hf = ws.get_header_footer();
        if !hf.get_odd_header().get_value().is_empty() {
            d.insert(format!("{}/header", p), hf.get_odd_header().get_value().to_string());
        }
        if !hf.get_odd_footer().get_value().is_empty() {
            d.insert(format!("{}/footer", p), hf.get_odd_footer().get_value().to_string());
        }
        if let Some(sp) = ws.get_sheet_protection() {
            d.insert(
                format!("{}/protection", p),
                format!(
                    "sheet={} objects={} scenarios={} fmtcells={} fmtcols={} fmtrows={} inscols={} insrows={} inslinks={} delcols={} delrows={} sellocked={} sort={} filter={} pivot={} selunlocked={} alg={:?} hash={:?} salt={:?} spin={}",
                    sp.get_sheet(), sp.get_objects(), sp.get_scenarios(), sp.get_format_cells(), sp.get_format_columns(), sp.get_format_rows(), sp.get_insert_columns(), sp.get_insert_rows(),
                    sp.get_insert_hyperlinks(), sp.get_delete_columns(), sp.get_delete_rows(), sp.get_select_locked_cells(), sp.get_sort(), sp.get_auto_filter(), sp.get_pivot_tables(),
                    sp.get_select_unlocked_cells(), sp.get_algorithm_name(), sp.get_hash_value(), sp.get_salt_value(), sp.get_spin_count()
                ),
            );
        }
        for t in ws.get_tables() {
            let cols: Vec<&str> = t.get_columns().iter().map(|c| c.get_name()).collect();
            d.insert(format!("{}/table/{}", p, t.get_name()), format!("display={:?} area={}:{} cols={:?}", t.get_display_name(), t.get_area().0.get_coordinate(), t.get_area().1.get_coordinate(), cols));
        }
    }
}

pub fn dump_book(book: &Spreadsheet, sec: Sections) -> Dump {
    let mut d = Dump::new();
    let sheets = book.get_sheet_collection_no_check();
    if sec.sheet_list {
        d.insert("wb/sheets".into(), sheets.iter().map(|s| s.get_name().to_string()).collect::<Vec<_>>().join(" | "));
        let at = *book.get_workbook_view().get_active_tab() as usize;
        d.insert("wb/active".into(), sheets.get(at).map(|s| s.get_name().to_string()).unwrap_or_else(|| format!("<dangling index {} of {}>", at, sheets.len())));
    }
    for (i, ws) in sheets.iter().enumerate() {
        dump_sheet(ws, &format!("sh{}", i), sec, &mut d);
    }
    if sec.annotations {
        let mut names: BTreeMap<String, Vec<String>> = BTreeMap::new();
        // names are re-homed between the workbook and the sheet their first address points to when a
        // file is loaded; what a user sees is (scope, name) -> refers-to, whichever collection holds it
        // a sheet-scoped name held by a sheet is scoped to that sheet (the writer emits the holder's index, the stored
        // index may be stale after sheets were added or removed); one held by the workbook keeps its stored index
        let all = book.get_defined_names().iter().map(|n| (None, n)).chain(sheets.iter().enumerate().flat_map(|(i, s)| s.get_defined_names().iter().map(move |n| (Some(i), n))));
        for (holder, n) in all {
            let scope = match (n.has_local_sheet_id(), holder) {
                (false, _) => "global".to_string(),
                (true, Some(i)) => format!("local{}", i),
                (true, None) => format!("local{}", n.get_local_sheet_id()),
            };
            names.entry(format!("{}/{}", scope, n.get_name())).or_default().push(n.get_address());
        }
        for (k, mut v) in names {
            v.sort();
            d.insert(format!("wb/name/{}", k), v.join(" && "));
        }
        if let Some(wp) = book.get_workbook_protection() {
            d.insert(
                "wb/protection".into(),
                format!(
                    "structure={} windows={} revision={} alg={:?} hash={:?} salt={:?} spin={} ralg={:?} rhash={:?} rsalt={:?} rspin={}",
                    wp.get_lock_structure(), wp.get_lock_windows(), wp.get_lock_revision(), wp.get_workbook_algorithm_name(), wp.get_workbook_hash_value(), wp.get_workbook_salt_value(),
                    wp.get_workbook_spin_count(), wp.get_revisions_algorithm_name(), wp.get_revisions_hash_value(), wp.get_revisions_salt_value(), wp.get_revisions_spin_count()
                ),
            );
        }
    }
    d
}

/// object prefixes ("sh0/style/D4/", "sh0/row/3/style.", "sh0/col/2/style.") whose font is explicitly set.
/// `None` means "font 0 of the workbook's style sheet", which the public API does not expose; a
/// comparison across a re-save may therefore treat None-vs-Some as a wildcard (see C04 guards).
pub fn explicit_font_objects(book: &Spreadsheet) -> std::collections::BTreeSet<String> {
    let mut out = std::collections::BTreeSet::new();
    for (i, ws) in book.get_sheet_collection_no_check().iter().enumerate() {
        for c in ws.get_cell_collection() {
            if c.get_style().get_font().is_some() && *c.get_coordinate().get_col_num() >= 1 {
                out.insert(format!("sh{}/style/{}/", i, c.get_coordinate().get_coordinate()));
            }
        }
        for r in ws.get_row_dimensions() {
            if r.get_style().get_font().is_some() {
                out.insert(format!("sh{}/row/{}/style.", i, r.get_row_num()));
            }
        }
        for c in ws.get_column_dimensions() {
            if c.get_style().get_font().is_some() {
                out.insert(format!("sh{}/col/{}/style.", i, c.get_col_num()));
            }
        }
    }
    out
}

/// Guarded observation: a getter that panics on a corrupt model is itself an observed event.
pub fn dump_book_guarded(book: &Spreadsheet, sec: Sections) -> Result<Dump, String> {
    guard(|| dump_book(book, sec))
}

/// category of a dump key with sheet / coordinate specifics removed: "sh0/cell/B3/v" -> "cell/v"
pub fn key_class(k: &str) -> String {
    let parts: Vec<&str> = k.split('/').collect();
    match parts.as_slice() {
        ["wb", "name", ..] => "wb/name".into(),
        ["wb", x, ..] => format!("wb/{}", x),
        [_, "cell", _, f] => format!("cell/{}", f),
        [_, "style", _, f] => format!("style/{}", f),
        [_, "row", _, f] => format!("row/{}", f.split('.').take(2).collect::<Vec<_>>().join(".")),
        [_, "col", _, f] => format!("col/{}", f.split('.').take(2).collect::<Vec<_>>().join(".")),
        [_, x, ..] if x.starts_with("view") => format!("view/{}", parts.last().unwrap()),
        [_, x, ..] => x.to_string(),
        _ => k.to_string(),
    }
}

pub struct DiffItem {
    pub key: String,
    pub class: String,
    pub a: Option<String>,
    pub b: Option<String>,
}
pub fn diff(a: &Dump, b: &Dump) -> Vec<DiffItem> {
    let mut out = vec![];
    for (k, va) in a {
        match b.get(k) {
            Some(vb) if vb == va => {}
            other => out.push(DiffItem { key: k.clone(), class: key_class(k), a: Some(va.clone()), b: other.cloned() }),
        }
    }
    for (k, vb) in b {
        if !a.contains_key(k) {
            out.push(DiffItem { key: k.clone(), class: key_class(k), a: None, b: Some(vb.clone()) });
        }
    }
    out
}
pub fn short(s: &Option<String>) -> String {
    match s {
        None => "<absent>".into(),
        Some(v) => {
            let v: String = v.chars().take(160).collect();
            format!("{:?}", v)
        }
    }
}
/// both values, cut to a window around the first difference
pub fn window(a: &Option<String>, b: &Option<String>) -> String {
    match (a, b) {
        (Some(x), Some(y)) => {
            let xc: Vec<char> = x.chars().collect();
            let yc: Vec<char> = y.chars().collect();
            let mut i = 0;
            while i < xc.len() && i < yc.len() && xc[i] == yc[i] {
                i += 1;
            }
            let lo = i.saturating_sub(40);
            let xs: String = xc[lo..(i + 80).min(xc.len())].iter().collect();
            let ys: String = yc[lo..(i + 80).min(yc.len())].iter().collect();
            format!("before {}{:?} after {}{:?}", if lo > 0 { "…" } else { "" }, xs, if lo > 0 { "…" } else { "" }, ys)
        }
        _ => format!("before {} after {}", short(a), short(b)),
    }
}

pub fn save(book: &Spreadsheet, light: bool) -> Result<Vec<u8>, String> {
    let mut buf = std::io::Cursor::new(Vec::new());
    let r = guard(|| if light { writer::xlsx::write_writer_light(book, &mut buf) } else { writer::xlsx::write_writer(book, &mut buf) });
    match r {
        Ok(Ok(())) => Ok(buf.into_inner()),
        Ok(Err(e)) => Err(format!("save error: {:?}", e)),
        Err(e) => Err(format!("save panic: {}", e)),
    }
}
pub fn load(bytes: &[u8]) -> Result<Spreadsheet, String> {
    let r = guard(|| reader::xlsx::read_reader(std::io::Cursor::new(bytes.to_vec()), true));
    match r {
        Ok(Ok(b)) => Ok(b),
        Ok(Err(e)) => Err(format!("load error: {:?}", e)),
        Err(e) => Err(format!("load panic: {}", e)),
    }
}
pub fn dump_json(d: &Dump) -> J {
    jstrmap(d)
}
