//! C14: encrypted output decrypts to the exact package, with the right password only.
//! The harness produces compound files through the public API (helper::crypt::encrypt,
//! writer::xlsx::set_password, write_with_password(_light)) together with the reference plaintext;
//! monitors/c14_check.py decrypts them with an independent MS-OFFCRYPTO implementation.
use crate::common::*;
use std::io::Write;
use umya_spreadsheet::*;

const PASSWORDS: &[&str] = &["", "password", "pässwörd", "パスワード", "p😀w𠀋", "a b\tc", "\"quoted\" <&>", "trailing-newline\r\n", " lead and trail ", "\u{3000}wide blank"];

pub fn sizes(rng: &mut Rng) -> usize {
    match rng.below(4) {
        0 => *rng.pick(&[0usize, 1, 15, 16, 17, 31, 32, 33, 4095, 4096, 4097, 8191, 8192, 8193, 12287, 12288, 12289]),
        1 => {
            let n = rng.range(1, 20) as usize * 4096;
            (n as i64 + rng.irange(-1, 1)) as usize
        }
        2 => rng.range(0, 70_000) as usize,
        _ => rng.range(0, 600) as usize,
    }
}

pub fn run(args: &Args) {
    std::fs::create_dir_all(&args.out).unwrap();
    let meta = std::sync::Mutex::new(std::io::BufWriter::new(std::fs::File::create(format!("{}/cases.jsonl", args.out)).unwrap()));
    let agg = run_cases(args, |seed, k| {
        let mut o = Outcome::default();
        let mut rng = Rng::new(seed, k);
        let password: String = match rng.below(8) {
            0 => "x".repeat(255),
            1 => (0..rng.range(1, 40)).map(|_| char::from_u32(rng.range(0x21, 0x7e)).unwrap()).collect(),
            _ => (*rng.pick(PASSWORDS)).to_string(),
        };
        let enc_path = format!("{}/case-{}.enc", args.out, k);
        let plain_path = format!("{}/case-{}.plain", args.out, k);
        let api = *rng.pick(&["encrypt", "set_password", "write_with_password", "write_with_password_light", "write_with_password_twice"]);
        let mut extra_enc: Option<String> = None;
        let res = guard(|| -> Result<Vec<u8>, String> {
            match api {
                "encrypt" | "set_password" => {
                    // a few packages are larger than 256 segments of 4096 bytes (the segment number no longer fits one byte)
                    let n = if k % 40 == 7 { 257 * 4096 + 1 + (k as usize % 3) * 4096 } else { sizes(&mut rng) };
                    let data: Vec<u8> = (0..n).map(|_| rng.next() as u8).collect();
                    if api == "encrypt" {
                        helper::crypt::encrypt(&enc_path, &data, &password).map_err(|e| e.to_string())?;
                    } else {
                        // a third of the calls encrypt a file in place (source and destination are the same path)
                        let from = if k % 3 == 0 { enc_path.clone() } else { format!("{}/case-{}.src", args.out, k) };
                        std::fs::write(&from, &data).map_err(|e| e.to_string())?;
                        if k % 5 == 1 {
                            // the source is itself a password-protected (compound) file: protecting it again wraps these very bytes
                            let inner = format!("{}/case-{}.inner", args.out, k);
                            std::fs::write(&inner, &data).map_err(|e| e.to_string())?;
                            writer::xlsx::set_password(&inner, &from, "first password").map_err(|e| format!("{:?}", e))?;
                            let wrapped = std::fs::read(&from).map_err(|e| e.to_string())?;
                            writer::xlsx::set_password(&from, &enc_path, &password).map_err(|e| format!("{:?}", e))?;
                            return Ok(wrapped);
                        }
                        writer::xlsx::set_password(&from, &enc_path, &password).map_err(|e| format!("{:?}", e))?;
                    }
                    Ok(data)
                }
                _ => {
                    let mut book = new_file();
                    let ws = book.get_sheet_mut(&0).unwrap();
                    for i in 0..rng.range(0, 400) {
                        let c = ws.get_cell_mut((1 + i % 7, 1 + i / 7));
                        if rng.chance(1, 2) {
                            c.set_value_string(format!("text {} {}", k, i));
                        } else {
                            c.set_value_number(i as f64 * 1.5);
                        }
                    }
                    let light = api == "write_with_password_light";
                    let mut cur = std::io::Cursor::new(Vec::new());
                    if light { writer::xlsx::write_writer_light(&book, &mut cur) } else { writer::xlsx::write_writer(&book, &mut cur) }.map_err(|e| format!("{:?}", e))?;
                    let p = std::path::PathBuf::from(format!("{}/case-{}.xlsx", args.out, k));
                    if light { writer::xlsx::write_with_password_light(&book, &p, &password) } else { writer::xlsx::write_with_password(&book, &p, &password) }.map_err(|e| format!("{:?}", e))?;
                    std::fs::rename(&p, &enc_path).map_err(|e| e.to_string())?;
                    if api == "write_with_password_twice" {
                        writer::xlsx::write_with_password(&book, &p, &password).map_err(|e| format!("{:?}", e))?;
                        let second = format!("{}/case-{}.enc2", args.out, k);
                        std::fs::rename(&p, &second).map_err(|e| e.to_string())?;
                        extra_enc = Some(second);
                    }
                    Ok(cur.into_inner())
                }
            }
        });
        o.observations += 1;
        o.nontrivial = true;
        o.hash = fnv(&format!("{}|{}|{}", api, password, k));
        o.feat(&format!("api:{}", api));
        let (status, size) = match res {
            Ok(Ok(data)) => {
                std::fs::write(&plain_path, &data).unwrap();
                ("ok".to_string(), data.len())
            }
            Ok(Err(e)) => (format!("err: {}", e), 0),
            Err(e) => (format!("panic: {}", e), 0),
        };
        o.descr = jo(vec![("api", js(api)), ("password_chars", J::I(password.chars().count() as i64)), ("plain_size", J::I(size as i64))]);
        let line = jo(vec![
            ("case", J::I(k as i64)),
            ("seed", J::I(seed as i64)),
            ("api", js(api)),
            ("password", js(&password)),
            ("size", J::I(size as i64)),
            ("status", js(status)),
            ("second", match &extra_enc { Some(p) => js(p), None => J::Null }),
        ]);
        writeln!(meta.lock().unwrap(), "{}", line.to_string()).unwrap();
        o
    });
    meta.lock().unwrap().flush().unwrap();
    finish(args, agg, vec![]);
}
