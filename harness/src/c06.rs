//! C06: sheet list and annotations survive save/reload on the same cells.
//! Every payload carries a unique id so that a swap between siblings is unambiguous.
use crate::common::*;
use crate::dump::*;
use crate::gen::*;
use std::collections::BTreeMap;
use umya_spreadsheet::helper::coordinate::coordinate_from_index;
use umya_spreadsheet::*;

fn rect(rng: &mut Rng, maxc: u32, maxr: u32) -> (u32, u32, u32, u32) {
    let c1 = rng.range(1, maxc);
    let r1 = rng.range(1, maxr);
    (c1, r1, c1 + rng.range(0, 3), r1 + rng.range(0, 3))
}
fn rect_s(r: (u32, u32, u32, u32)) -> String {
    format!("{}:{}", coordinate_from_index(&r.0, &r.1), coordinate_from_index(&r.2, &r.3))
}

pub fn annotate_sheet(rng: &mut Rng, ws: &mut Worksheet, sheet_name: &str, uid: &mut u32, o: &mut Outcome, heavy: bool) {
    let many = |rng: &mut Rng| if heavy { rng.range(0, 40) } else { rng.range(0, 5) };
    // merges: disjoint by construction (each in its own 4x4 tile)
    let nm = many(rng);
    for i in 0..nm {
        let (tc, tr) = (1 + (i % 8) * 4, 60 + (i / 8) * 4);
        let r = (tc, tr, tc + rng.range(0, 2), tr + rng.range(0, 2));
        if r.0 == r.2 && r.1 == r.3 {
            continue;
        }
        ws.add_merge_cells(rect_s(r));
        o.count("merges", 1);
    }
    // hyperlinks: external with XML specials / non-ASCII, and internal locations
    for _ in 0..many(rng) {
        let pos = (rng.range(1, 12), rng.range(1, 40));
        *uid += 1;
        let cell = ws.get_cell_mut(pos);
        if cell.get_value().is_empty() {
            cell.set_value_string(format!("link{}", uid));
        }
        let h = cell.get_hyperlink_mut();
        if rng.chance(3, 4) {
            // web addresses, mail addresses and files next to / above / below the workbook
            let url = match rng.below(6) {
                0 => format!("../reports/q{}.xlsx", uid),
                1 => format!("sub dir/file{}.xlsx#Sheet1!A1", uid),
                2 => format!("mailto:a{}@example.com?subject=x&y", uid),
                _ => format!("http://h/{}?a=1&b=<{}>&c='q'&d=\"é日\"", uid, uid),
            };
            h.set_url(url);
            h.set_location(false);
            o.count("hyperlinks.external", 1);
        } else {
            h.set_url(format!("'{}'!A{}", sheet_name.replace('\'', "''"), *uid));
            h.set_location(true);
            o.count("hyperlinks.internal", 1);
        }
        if rng.chance(1, 3) {
            h.set_tooltip(format!("tip{} <&>", uid));
        }
    }
    // comments
    let mut used = std::collections::BTreeSet::new();
    for _ in 0..many(rng) {
        let pos = (rng.range(1, 12), rng.range(1, 40));
        if !used.insert(pos) {
            continue;
        }
        *uid += 1;
        let mut c = Comment::default();
        c.new_comment(pos);
        c.set_text_string(format!("c{} <&> \"é\"\nline2", uid));
        // authors may differ in letter case only
        c.set_author(match rng.below(5) { 0 => "Bob".to_string(), 1 => "bob".to_string(), _ => format!("author{} & co", *uid % 3) });
        ws.add_comments(c);
        o.count("comments", 1);
    }
    // data validations
    let ndv = many(rng);
    if ndv > 0 {
        let mut dvs = DataValidations::default();
        for _ in 0..ndv {
            *uid += 1;
            let mut dv = DataValidation::default();
            let mut seq = SequenceOfReferences::default();
            seq.set_sqref(rect_s(rect(rng, 12, 40)));
            dv.set_sequence_of_references(seq);
            match rng.below(3) {
                0 => {
                    dv.set_type(DataValidationValues::List);
                    dv.set_formula1(format!("\"a{},b<&>,c\"", uid));
                }
                1 => {
                    dv.set_type(DataValidationValues::Whole);
                    dv.set_operator(DataValidationOperatorValues::Between);
                    dv.set_formula1(format!("{}", uid));
                    dv.set_formula2(format!("{}", *uid + 10));
                }
                _ => {
                    dv.set_type(DataValidationValues::Custom);
                    dv.set_formula1(format!("LEN(A1)<{}", uid));
                }
            }
            dv.set_allow_blank(rng.chance(1, 2));
            dv.set_show_error_message(rng.chance(1, 2));
            if rng.chance(1, 2) {
                dv.set_prompt_title(format!("pt{}", uid));
                dv.set_prompt(format!("prompt{} <&>", uid));
                dv.set_show_input_message(true);
            }
            if rng.chance(1, 2) {
                dv.set_error_title(format!("et{}", uid));
                dv.set_error_message(format!("err{} \"q\"", uid));
            }
            dvs.add_data_validation_list(dv);
            o.count("validations", 1);
        }
        ws.set_data_validations(dvs);
    }
    // conditional formats (with differential styles)
    for _ in 0..many(rng) {
        *uid += 1;
        let mut cf = ConditionalFormatting::default();
        cf.get_sequence_of_references_mut().set_sqref(rect_s(rect(rng, 12, 40)));
        for _ in 0..rng.range(1, 2) {
            let mut rule = ConditionalFormattingRule::default();
            match rng.below(3) {
                0 => {
                    rule.set_type(ConditionalFormatValues::CellIs);
                    rule.set_operator(ConditionalFormattingOperatorValues::GreaterThan);
                    let mut f = Formula::default();
                    f.set_string_value(format!("{}", uid));
                    rule.set_formula(f);
                }
                1 => {
                    rule.set_type(ConditionalFormatValues::Expression);
                    let mut f = Formula::default();
                    f.set_string_value(format!("AND(A1>{},\"x\"<>\"<&>\")", uid));
                    rule.set_formula(f);
                }
                _ => {
                    rule.set_type(ConditionalFormatValues::ContainsText);
                    rule.set_operator(ConditionalFormattingOperatorValues::ContainsText);
                    rule.set_text(format!("t{}", uid));
                    let mut f = Formula::default();
                    f.set_string_value(format!("NOT(ISERROR(SEARCH(\"t{}\",A1)))", uid));
                    rule.set_formula(f);
                }
            }
            rule.set_priority((*uid % 50) as i32 + 1);
            if rng.chance(2, 3) {
                let mut st = Style::default();
                st.get_font_mut().set_bold(true).get_color_mut().set_argb(format!("FF{:06X}", *uid * 7919 % 0xFFFFFF));
                if rng.chance(1, 2) {
                    st.set_background_color(format!("FF{:06X}", *uid * 104729 % 0xFFFFFF));
                }
                rule.set_style(st);
            }
            cf.add_conditional_collection(rule);
        }
        ws.add_conditional_formatting_collection(cf);
        o.count("conditional-formats", 1);
    }
    if rng.chance(1, 2) {
        ws.set_auto_filter(rect_s(rect(rng, 8, 20)));
        o.count("autofilter", 1);
    }
    if rng.chance(1, 2) {
        ws.get_tab_color_mut().set_argb(format!("FF{:06X}", rng.below(0xFFFFFF)));
        if rng.chance(1, 2) {
            // a tint on a colour given as rgb (not only on theme colours)
            ws.get_tab_color_mut().set_tint(*rng.pick(&[-0.249977111117893, 0.39997558519241921, 0.5]));
        }
        o.count("tabcolor", 1);
    }
    if rng.chance(1, 2) {
        let views = ws.get_sheet_views_mut().get_sheet_view_list_mut();
        if views.is_empty() {
            views.push(SheetView::default());
        }
        let v = &mut views[0];
        let (c, r) = (rng.range(0, 4), rng.range(0, 6));
        if c + r > 0 {
            let mut p = Pane::default();
            p.set_horizontal_split(c as f64);
            p.set_vertical_split(r as f64);
            let mut tl = Coordinate::default();
            tl.set_coordinate(coordinate_from_index(&(c + 1), &(r + 1)));
            p.set_top_left_cell(tl);
            p.set_active_pane(if c > 0 && r > 0 { PaneValues::BottomRight } else if c > 0 { PaneValues::TopRight } else { PaneValues::BottomLeft });
            p.set_state(PaneStateValues::Frozen);
            v.set_pane(p);
            o.count("panes", 1);
        }
        if rng.chance(1, 2) {
            v.set_zoom_scale(*rng.pick(&[50, 75, 120, 200]));
        }
    }
    if rng.chance(1, 2) {
        ws.get_page_setup_mut().set_orientation(if rng.chance(1, 2) { OrientationValues::Landscape } else { OrientationValues::Portrait }).set_paper_size(*rng.pick(&[1, 8, 9, 11])).set_scale(rng.range(10, 200));
        ws.get_page_margins_mut().set_left(rng.range(0, 30) as f64 / 10.0).set_top(rng.range(0, 30) as f64 / 8.0);
        o.count("pagesetup", 1);
    }
    if rng.chance(1, 2) {
        *uid += 1;
        ws.get_header_footer_mut().get_odd_header_mut().set_value(format!("&C&\"Arial,Bold\"Head{} <&> é", uid));
        ws.get_header_footer_mut().get_odd_footer_mut().set_value(format!("&LFoot{}&RPage &P of &N", uid));
        o.count("headerfooter", 1);
    }
    if rng.chance(1, 3) {
        let sp = ws.get_sheet_protection_mut();
        sp.set_sheet(true);
        sp.set_objects(rng.chance(1, 2));
        sp.set_format_cells(rng.chance(1, 2));
        sp.set_insert_rows(rng.chance(1, 2));
        sp.set_sort(rng.chance(1, 2));
        sp.set_auto_filter(rng.chance(1, 2));
        if rng.chance(1, 2) {
            sp.set_password(&format!("pw{}", uid));
        }
        o.count("sheet-protection", 1);
    }
    // defined names (scope: workbook; refer into this sheet)
    for _ in 0..many(rng) {
        *uid += 1;
        let r = rect(rng, 12, 40);
        let quoted = if sheet_name.chars().all(|c| c.is_ascii_alphanumeric()) && !sheet_name.chars().next().unwrap().is_ascii_digit() { sheet_name.to_string() } else { format!("'{}'", sheet_name.replace('\'', "''")) };
        let addr = format!("{}!${}${}:${}${}", quoted, helper::coordinate::string_from_column_index(&r.0), r.1, helper::coordinate::string_from_column_index(&r.2), r.3);
        let _ = ws.add_defined_name(format!("N{}_é", uid), addr);
        o.count("defined-names", 1);
    }
}

pub fn build(rng: &mut Rng, o: &mut Outcome) -> Spreadsheet {
    let nsheets = rng.range(1, 6) as usize;
    let mut names = sheet_names(rng, nsheets + 2);
    let extra2 = names.pop().unwrap();
    let extra1 = names.pop().unwrap();
    let mut book = new_book(&names);
    let mut uid = 0u32;
    // add / remove / rename before saving
    if rng.chance(1, 3) {
        book.new_sheet(extra1.clone()).unwrap();
        names.push(extra1);
        o.count("sheet-added", 1);
    }
    // the active tab may be chosen before a sheet is removed (and is then not touched again)
    let early_active = rng.chance(1, 3);
    if early_active {
        let at = rng.below(names.len() as u64) as u32;
        book.set_active_sheet(at);
        o.count("active-set-before-remove", 1);
    }
    if names.len() > 1 && rng.chance(1, 3) {
        let i = rng.below(names.len() as u64) as usize;
        book.remove_sheet(i).unwrap();
        names.remove(i);
        o.count("sheet-removed", 1);
    }
    if rng.chance(1, 3) {
        let i = rng.below(names.len() as u64) as usize;
        book.set_sheet_name(i, extra2.clone()).unwrap();
        names[i] = extra2;
        o.count("sheet-renamed", 1);
    }
    let heavy = rng.chance(1, 5);
    for (i, n) in names.iter().enumerate() {
        let ws = book.get_sheet_mut(&i).unwrap();
        ws.get_cell_mut((1, 1)).set_value_string(format!("sheet {}", i));
        if names.len() > 1 && i > 0 && rng.chance(1, 4) {
            ws.set_state(if rng.chance(1, 2) { SheetStateValues::Hidden } else { SheetStateValues::VeryHidden });
            o.count("sheet-hidden", 1);
        }
        annotate_sheet(rng, ws, n, &mut uid, o, heavy);
    }
    // sheet-scoped names (localSheetId = index of the holding sheet); some of them refer to cells of another sheet
    for i in 0..names.len() {
        let other = &names[rng.below(names.len() as u64) as usize];
        let other_q = if other.chars().all(|c| c.is_ascii_alphanumeric()) && !other.chars().next().unwrap().is_ascii_digit() { other.to_string() } else { format!("'{}'", other.replace('\'', "''")) };
        let ws = book.get_sheet_mut(&i).unwrap();
        for dn in ws.get_defined_names_mut().iter_mut() {
            match rng.below(4) {
                0 => {
                    dn.set_local_sheet_id(i as u32);
                    o.count("defined-names.sheet-scoped", 1);
                }
                1 => {
                    dn.set_local_sheet_id(i as u32);
                    dn.set_address(format!("{}!$B$2:$C${}", other_q, 3 + i));
                    o.count("defined-names.sheet-scoped-referring-elsewhere", 1);
                }
                _ => {}
            }
        }
        // set_address appends an area, so the names above still start on their own sheet; a scoped name that refers
        // only to another sheet has to be created with that address
        if rng.chance(1, 2) {
            uid += 1;
            let _ = ws.add_defined_name(format!("L{}_ü", uid), format!("{}!$D$4:$E${}", other_q, 6 + i));
            ws.get_defined_names_mut().last_mut().unwrap().set_local_sheet_id(i as u32);
            o.count("defined-names.sheet-scoped-only-elsewhere", 1);
        }
    }
    // the same name once for the whole workbook (pointing at sheet i, held by another sheet) and once scoped to sheet i:
    // legal in Excel, and two distinct names
    if names.len() > 1 && rng.chance(1, 3) {
        uid += 1;
        let i = rng.below(names.len() as u64) as usize;
        let j = (i + 1) % names.len();
        let me = &names[i];
        let me_q = if me.chars().all(|c| c.is_ascii_alphanumeric()) && !me.chars().next().unwrap().is_ascii_digit() { me.to_string() } else { format!("'{}'", me.replace('\'', "''")) };
        let nm = format!("Both{}", uid);
        let _ = book.get_sheet_mut(&j).unwrap().add_defined_name(nm.clone(), format!("{}!$A$1:$B${}", me_q, 2 + i));
        let ws = book.get_sheet_mut(&i).unwrap();
        let _ = ws.add_defined_name(nm.clone(), format!("{}!$F$6:$G${}", me_q, 8 + i));
        ws.get_defined_names_mut().last_mut().unwrap().set_local_sheet_id(i as u32);
        o.count("defined-names.same-name-global-and-sheet-scoped", 1);
    }
    if !early_active {
        let at = rng.below(names.len() as u64) as u32;
        book.set_active_sheet(at);
    }
    if rng.chance(1, 4) {
        let wp = book.get_workbook_protection_mut();
        wp.set_lock_structure(true);
        wp.set_lock_windows(rng.chance(1, 2));
        if rng.chance(1, 2) {
            wp.set_workbook_password("wbpw");
        }
        o.count("workbook-protection", 1);
    }
    o.count("sheets", names.len() as u64);
    book
}

pub fn compare(pre: &Dump, post: &Dump, o: &mut Outcome, tag: &str) {
    o.observations += pre.len() as u64;
    let mut per: BTreeMap<String, u32> = BTreeMap::new();
    for di in diff(pre, post) {
        // a payload that shows up under a sibling's key is a swap
        let swapped = di.b.as_ref().map(|b| pre.iter().any(|(k2, v2)| k2 != &di.key && key_class(k2) == di.class && v2 == b)).unwrap_or(false);
        let sig = format!("{}{}", di.class, if swapped { "[sibling's payload]" } else if di.b.is_none() { "[lost]" } else if di.a.is_none() { "[extra]" } else { "" });
        let n = per.entry(sig.clone()).or_insert(0);
        *n += 1;
        if *n <= 2 {
            o.div(sig, format!("{} {}: {}", tag, di.key, window(&di.a, &di.b)));
        }
    }
}

pub fn run(args: &Args) {
    let agg = run_cases(args, |seed, k| {
        let mut o = Outcome::default();
        let mut rng = Rng::new(seed, k);
        let book = match guard(|| build(&mut rng, &mut o)) {
            Ok(b) => b,
            Err(e) => {
                o.div(format!("build-panicked:{}", panic_site(&e)), e);
                return o;
            }
        };
        let pre = match dump_book_guarded(&book, Sections::ANNOT) {
            Ok(d) => d,
            Err(e) => {
                o.inconclusive = Some(format!("pre-save dump panicked: {}", e));
                return o;
            }
        };
        if pre.get("wb/active").map(|v| v.starts_with("<dangling")).unwrap_or(false) {
            o.div("wb/active[dangling before save]", format!("active tab designates no sheet: {}", pre["wb/active"]));
        }
        o.nontrivial = pre.len() > 12;
        o.hash = fnv(&format!("{:?}", pre));
        o.descr = jo(vec![("sheets", js(pre.get("wb/sheets").cloned().unwrap_or_default())), ("active", js(pre.get("wb/active").cloned().unwrap_or_default())), ("dump_entries", J::I(pre.len() as i64)), ("example", J::A(pre.iter().filter(|(k, _)| k.contains("/link/") || k.contains("/comment/")).take(3).map(|(k, v)| js(format!("{}={}", k, v))).collect()))]);
        // the hyperlink pairing depends on per-map hash seeds: several saves per workbook
        for round in 0..3 {
            let light = round == 1;
            let tag = format!("save#{}{}", round, if light { "(light)" } else { "" });
            o.count("saves", 1);
            let bytes = match save(&book, light) {
                Ok(b) => b,
                Err(e) => {
                    o.div(format!("save-failed:{}", panic_site(&e)), format!("{}: {}", tag, e));
                    continue;
                }
            };
            let re = match load(&bytes) {
                Ok(b) => b,
                Err(e) => {
                    o.div(format!("reload-failed:{}", panic_site(&e)), format!("{}: {}", tag, e));
                    continue;
                }
            };
            match dump_book_guarded(&re, Sections::ANNOT) {
                Ok(post) => compare(&pre, &post, &mut o, &tag),
                Err(e) => o.div(format!("dump-after-reload-panicked:{}", panic_site(&e)), e),
            }
        }
        o
    });
    finish(args, agg, vec![]);
}
