//! C05: styles and dimensions survive save/reload; interning never merges different styles;
//! style tables do not grow across generations.
use crate::common::*;
use crate::dump::*;
use crate::gen::*;
use std::collections::{BTreeMap, BTreeSet};
use umya_spreadsheet::*;

/// count the entries of the styles.xml tables with a scanner that shares nothing with the library
pub fn style_table_sizes(xlsx: &[u8]) -> Result<BTreeMap<String, usize>, String> {
    let xml = crate::zipx::read_part(xlsx, "xl/styles.xml")?;
    let mut out = BTreeMap::new();
    for (table, item) in [("numFmts", "numFmt"), ("fonts", "font"), ("fills", "fill"), ("borders", "border"), ("cellStyleXfs", "xf"), ("cellXfs", "xf"), ("dxfs", "dxf")] {
        let open = format!("<{}", table);
        let close = format!("</{}>", table);
        let n = match xml.find(&open) {
            None => 0,
            Some(s) => {
                let body_end = xml[s..].find(&close).map(|e| s + e).unwrap_or(s);
                let body = &xml[s + open.len()..body_end];
                let mut n = 0;
                let mut i = 0;
                let pat = format!("<{}", item);
                while let Some(p) = body[i..].find(&pat) {
                    let after = body[i + p + pat.len()..].chars().next().unwrap_or(' ');
                    if after == ' ' || after == '>' || after == '/' {
                        n += 1;
                    }
                    i += p + pat.len();
                }
                n
            }
        };
        out.insert(table.to_string(), n);
    }
    Ok(out)
}

pub fn build(rng: &mut Rng, o: &mut Outcome) -> Spreadsheet {
    let mut book = new_book(&["Styles".to_string(), "More".to_string()]);
    let nstyles = match rng.below(8) {
        0 => rng.range(150, 400),
        1 => rng.range(1, 3),
        _ => rng.range(4, 60),
    } as usize;
    let mut styles: Vec<Style> = vec![];
    while styles.len() < nstyles {
        match rng.below(5) {
            0 | 1 if !styles.is_empty() => {
                let base = rng.pick(&styles).clone();
                let (m, what) = mutate_style(rng, &base);
                o.count(&format!("near-duplicate.{}", what), 1);
                styles.push(m);
            }
            2 => {
                // adjacent-field collision candidates for concatenated hash keys
                let (a, b): (Style, Style) = {
                    let mut a = Style::default();
                    let mut b = Style::default();
                    match rng.below(4) {
                        0 => {
                            a.get_font_mut().set_name("Arial").set_size(11.0);
                            b.get_font_mut().set_name("Arial1").set_size(1.0);
                        }
                        1 => {
                            a.get_font_mut().set_name("Font2").set_size(2.0);
                            b.get_font_mut().set_name("Font").set_size(22.0);
                        }
                        2 => {
                            a.get_font_mut().set_size(1.0).set_family(12);
                            b.get_font_mut().set_size(11.0).set_family(2);
                        }
                        _ => {
                            a.get_number_format_mut().set_format_code("0.0");
                            b.get_number_format_mut().set_format_code("0.00");
                        }
                    }
                    (a, b)
                };
                o.count("collision-candidate-pairs", 1);
                styles.push(a);
                styles.push(b);
            }
            _ => styles.push(rand_style(rng)),
        }
    }
    o.count("styles", styles.len() as u64);
    let distinct: BTreeSet<String> = styles.iter().map(style_string).collect();
    o.count("distinct-effective-styles", distinct.len() as u64);
    // assign: every style to at least one cell; some to ranges, rows, columns
    for (i, st) in styles.iter().enumerate() {
        let si = i % 2;
        let ws = book.get_sheet_mut(&si).unwrap();
        let col = 2 + (i as u32 % 20);
        let row = 2 + (i as u32 / 20);
        ws.set_style((col, row), st.clone());
        if rng.chance(1, 3) {
            ws.get_cell_mut((col, row)).set_value_number(i as f64);
        }
    }
    // cells that carry a value and no formatting of their own, created before rows / columns are formatted: a cell keeps
    // its own (default) formatting whatever its row or column is given afterwards
    for si in 0..2usize {
        let ws = book.get_sheet_mut(&si).unwrap();
        for j in 0..rng.range(0, 12) {
            let (c, r) = (rng.range(1, 26), rng.range(1, 60));
            if ws.get_cell((c, r)).is_none() {
                ws.get_cell_mut((c, r)).set_value_string(format!("plain{}", j));
                o.count("plain-cells-before-row-column-formatting", 1);
            }
        }
    }
    for si in 0..2usize {
        let ws = book.get_sheet_mut(&si).unwrap();
        for _ in 0..rng.range(0, 3) {
            let (c1, r1) = (rng.range(30, 40), rng.range(1, 30));
            let range = format!("{}:{}", helper::coordinate::coordinate_from_index(&c1, &r1), helper::coordinate::coordinate_from_index(&(c1 + rng.range(0, 3)), &(r1 + rng.range(0, 3))));
            ws.set_style_by_range(&range, rng.pick(&styles).clone());
            o.count("style-by-range", 1);
        }
        for _ in 0..rng.range(0, 5) {
            let r = rng.range(1, 60);
            let row = ws.get_row_dimension_mut(&r);
            match rng.below(4) {
                0 => {
                    row.set_style(rng.pick(&styles).clone());
                }
                1 => {
                    row.set_height(*rng.pick(&[1.0, 12.75, 15.0, 30.5, 409.5]));
                }
                2 => {
                    row.set_hidden(true);
                }
                _ => {
                    row.set_style(rng.pick(&styles).clone());
                    row.set_height(rng.range(5, 100) as f64 + 0.25);
                }
            }
            o.count("row-settings", 1);
        }
        // columns: runs of equal adjacent columns and runs broken by one differing attribute
        let mut c = rng.range(1, 5);
        for _ in 0..rng.range(0, 4) {
            let run = rng.range(1, 4);
            let width = *rng.pick(&[3.0, 8.43, 12.5, 20.0, 255.0]);
            let hidden = rng.chance(1, 5);
            let best_fit = rng.chance(1, 4);
            let st = if rng.chance(1, 2) { Some(rng.pick(&styles).clone()) } else { None };
            let break_at = if rng.chance(1, 2) { Some(rng.range(0, run - 1)) } else { None };
            for j in 0..run {
                let col = ws.get_column_dimension_by_number_mut(&(c + j));
                col.set_width(width);
                col.set_hidden(hidden);
                col.set_best_fit(best_fit);
                if let Some(s) = &st {
                    col.set_style(s.clone());
                }
                if break_at == Some(j) {
                    match rng.below(4) {
                        3 => {
                            col.set_best_fit(!best_fit);
                        }
                        0 => {
                            col.set_width(width + 1.5);
                        }
                        1 => {
                            col.set_hidden(!hidden);
                        }
                        _ => {
                            col.set_style(rng.pick(&styles).clone());
                        }
                    }
                    o.count("column-run-broken", 1);
                }
            }
            o.count("column-runs", 1);
            c += run + rng.range(0, 2);
        }
        if rng.chance(1, 3) {
            // neighbours that agree in everything but formatting: [formatted][unformatted] and [unformatted][formatted]
            let (w, st) = (*rng.pick(&[9.5, 14.0, 31.0]), rng.pick(&styles).clone());
            let formatted_first = rng.chance(1, 2);
            for j in 0..2u32 {
                let col = ws.get_column_dimension_by_number_mut(&(c + 2 + j));
                col.set_width(w);
                if (j == 0) == formatted_first {
                    col.set_style(st.clone());
                }
            }
            o.count("column-neighbours-differing-in-format-only", 1);
        }
    }
    book
}

pub fn run(args: &Args) {
    let agg = run_cases(args, |seed, k| {
        let mut o = Outcome::default();
        let mut rng = Rng::new(seed, k);
        let book = build(&mut rng, &mut o);
        let pre = match dump_book_guarded(&book, Sections::STYLES) {
            Ok(d) => d,
            Err(e) => {
                o.inconclusive = Some(format!("pre-save dump panicked: {}", e));
                return o;
            }
        };
        o.nontrivial = true;
        o.hash = fnv(&format!("{:?}", pre));
        o.descr = jo(vec![("styles", J::I(*o.counters.get("styles").unwrap_or(&0) as i64)), ("dump_entries", J::I(pre.len() as i64)), ("example", J::A(pre.iter().take(3).map(|(k, v)| js(format!("{}={}", k, v))).collect()))]);
        let light = rng.chance(1, 2);
        let mut cur = book;
        let mut sizes: Vec<BTreeMap<String, usize>> = vec![];
        for generation in 1..=3 {
            let bytes = match save(&cur, light) {
                Ok(b) => b,
                Err(e) => {
                    o.div(format!("save-failed:{}", panic_site(&e)), format!("generation {}: {}", generation, e));
                    return o;
                }
            };
            match style_table_sizes(&bytes) {
                Ok(s) => sizes.push(s),
                Err(e) => {
                    o.inconclusive = Some(format!("cannot read styles.xml: {}", e));
                    return o;
                }
            }
            let re = match load(&bytes) {
                Ok(b) => b,
                Err(e) => {
                    o.div(format!("reload-failed:{}", panic_site(&e)), format!("generation {}: {}", generation, e));
                    return o;
                }
            };
            if generation == 1 {
                match dump_book_guarded(&re, Sections::STYLES) {
                    Ok(post) => {
                        o.observations += pre.len() as u64;
                        let mut per: BTreeMap<String, u32> = BTreeMap::new();
                        for di in diff(&pre, &post) {
                            // was another object's value taken over? (interning merged two styles)
                            let merged = di.b.as_ref().map(|b| pre.iter().any(|(k2, v2)| k2 != &di.key && key_class(k2) == di.class && v2 == b)).unwrap_or(false);
                            let sig = format!("{}{}", di.class, if merged { "[took another object's value]" } else { "" });
                            let n = per.entry(sig.clone()).or_insert(0);
                            *n += 1;
                            if *n <= 2 {
                                o.div(sig, format!("{}: {}", di.key, window(&di.a, &di.b)));
                            }
                        }
                    }
                    Err(e) => o.div(format!("dump-after-reload-panicked:{}", panic_site(&e)), e),
                }
            }
            cur = re;
        }
        o.count("generations", sizes.len() as u64);
        for (t, n2) in &sizes[1] {
            let n1 = sizes[0][t];
            let n3 = sizes[2][t];
            o.observations += 1;
            if n3 > *n2 || *n2 > n1 + 1 {
                o.div(format!("style-table-growth:{}", t), format!("{} entries over generations: {} -> {} -> {}", t, n1, n2, n3));
            }
        }
        o
    });
    finish(args, agg, vec![]);
}
