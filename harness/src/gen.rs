//! Workload generators shared by the file round-trip monitors: hostile text, numbers,
//! cell placement, styles, annotations. Everything goes through the public API.
#![allow(dead_code)]
use crate::common::*;
use umya_spreadsheet::*;

pub const ERRORS: &[&str] = &["#VALUE!", "#REF!", "#NUM!", "#NULL!", "#NAME?", "#N/A", "#DIV/0!"];

/// hostile text; `ctrl` additionally allows characters XML 1.0 cannot carry
pub fn hostile_text(rng: &mut Rng, ctrl: bool, uid: &mut u32) -> String {
    const ATOMS: &[&str] = &[
        "<", ">", "&", "'", "\"", "]]>", "<![CDATA[", "&amp;", "&#10;", "&lt;", " ", "  ", "\u{a0}", "\u{3000}", "\t", "\n", "\r\n", "\r", "😀", "𠀋", "e\u{301}", "\u{202e}",
        "\u{200f}", "_x000D_", "_x0041_", "_x005F_", "_", "a", "b", "Z", "0", "é", "日本", "Ω", "\\", "/", "%", "{", "}", "=", "+", "-", "@", "\u{feff}", "\u{fffd}",
    ];
    const CTRL: &[&str] = &["\u{1}", "\u{b}", "\u{1f}", "\u{8}", "\u{c}", "\u{fffe}", "\u{ffff}", "\u{7f}", "\u{85}"];
    const LOOKALIKE: &[&str] = &["123", "1e5", "TRUE", "false", "#N/A", "#REF!", "inf", "NaN", "-0", "0x1F", "1,5", "12:30", "2024-01-01", " 42", "42 ", "+7", ".5", "1.", "Infinity", "nan"];
    *uid += 1;
    match rng.below(12) {
        0 => String::new(),
        1 => (*rng.pick(LOOKALIKE)).to_string(),
        2 => {
            // long string
            let n = if rng.chance(1, 6) { 32767 } else { rng.range(300, 3000) } as usize;
            let unit = format!("L{}-", uid);
            let mut s = String::new();
            while s.chars().count() < n {
                s.push_str(&unit);
            }
            s.chars().take(n).collect()
        }
        3 => format!("dup{}", rng.below(4)),
        4 => format!("dup{} ", rng.below(4)),
        _ => {
            let n = rng.range(1, 8);
            let mut s = String::new();
            if rng.chance(1, 2) {
                s.push_str(&format!("u{}", uid));
            }
            for _ in 0..n {
                if ctrl && rng.chance(1, 3) {
                    s.push_str(*rng.pick(CTRL));
                } else {
                    s.push_str(*rng.pick(ATOMS));
                }
            }
            s
        }
    }
}

pub fn hostile_number(rng: &mut Rng) -> f64 {
    match rng.below(12) {
        0 => loop {
            let v = f64::from_bits(rng.next());
            if v.is_finite() {
                return v;
            }
        },
        1 => f64::from_bits(rng.below(1 << 52)), // subnormal
        2 => *rng.pick(&[0.0, -0.0, f64::MAX, f64::MIN, f64::MIN_POSITIVE, f64::EPSILON, 1e21, 1e-7, 1e22, 1e-5, 123456789012345680.0, 0.1, 0.3, 1.0 / 3.0]),
        3 => (1u64 << 53) as f64 + rng.irange(-3, 3) as f64,
        4 => {
            let digits = rng.range(15, 17);
            let mut s = String::from("0.");
            for _ in 0..digits {
                s.push((b'0' + rng.below(10) as u8) as char);
            }
            s.parse::<f64>().unwrap() * 10f64.powi(rng.irange(-20, 20) as i32)
        }
        5 => rng.irange(-1_000_000, 1_000_000) as f64,
        6 => rng.irange(1, 2_958_465) as f64 + rng.f01(),
        _ => (rng.f01() - 0.5) * 10f64.powi(rng.irange(-8, 12) as i32),
    }
}

pub fn rich_text(rng: &mut Rng, ctrl: bool, uid: &mut u32) -> RichText {
    let mut rt = RichText::default();
    let runs = rng.range(1, 4);
    for i in 0..runs {
        let mut te = TextElement::default();
        let mut t = hostile_text(rng, ctrl, uid);
        if t.is_empty() || t.chars().count() > 200 {
            t = format!("run{} ", uid);
        }
        te.set_text(t);
        if i > 0 || rng.chance(1, 2) {
            let f = te.get_font_mut();
            f.set_bold(rng.chance(1, 2));
            f.set_italic(rng.chance(1, 3));
            f.set_size(rng.range(8, 20) as f64);
            f.set_name(*rng.pick(&["Arial", "Calibri", "MS Gothic"]));
            if rng.chance(1, 2) {
                f.get_color_mut().set_argb(format!("FF{:06X}", rng.below(0xFFFFFF)));
            }
        }
        rt.add_rich_text_elements(te);
    }
    rt
}

/// cell position generator: dense block, sparse, grid corners and edges
pub fn position(rng: &mut Rng) -> (u32, u32) {
    match rng.below(10) {
        0 => (*rng.pick(&[1u32, 16384]), *rng.pick(&[1u32, 1_048_576])),
        1 => (rng.range(1, 16384), *rng.pick(&[1u32, 2, 1_048_575, 1_048_576])),
        2 => (*rng.pick(&[1u32, 26, 27, 702, 703, 16383, 16384]), rng.range(1, 1_048_576)),
        3 => (rng.range(1, 300), rng.range(1, 5000)),
        _ => (rng.range(1, 8), rng.range(1, 12)),
    }
}

pub const SHEET_NAMES: &[&str] = &["Data", "My Sheet", "Q&A <1>", "it's", "a!b", "日本 語", "\"q\"", "x'y z", "1234", "A1", "R&D's \"Plan\" <v2>!", "ünï-cødé", "S(1)", "50%", "a,b;c"];

pub fn sheet_names(rng: &mut Rng, n: usize) -> Vec<String> {
    let mut out: Vec<String> = vec![];
    while out.len() < n {
        let cand = if rng.chance(1, 8) { "N".repeat(31) } else { (*rng.pick(SHEET_NAMES)).to_string() };
        if !out.iter().any(|x| x.to_lowercase() == cand.to_lowercase()) {
            out.push(cand);
        }
    }
    out
}

/// new workbook with the given sheet names (the default sheet is renamed to the first)
pub fn new_book(names: &[String]) -> Spreadsheet {
    let mut book = new_file();
    if book.get_sheet(&0).unwrap().get_name() != names[0] {
        book.set_sheet_name(0, names[0].clone()).unwrap();
    }
    for n in names.iter().skip(1) {
        book.new_sheet(n.clone()).unwrap();
    }
    book
}

// ---------------------------------------------------------------- styles
pub fn rand_color(rng: &mut Rng) -> Color {
    let mut c = Color::default();
    match rng.below(4) {
        0 => {
            c.set_theme_index(rng.below(10) as u32);
            if rng.chance(1, 2) {
                c.set_tint(*rng.pick(&[-0.499984740745262, -0.249977111117893, 0.3999755851924192, 0.5999938962981048, 0.7999816888943144]));
            }
        }
        1 => {
            c.set_indexed(rng.range(8, 63));
        }
        _ => {
            c.set_argb(format!("FF{:06X}", rng.below(0x1000000)));
        }
    }
    c
}

pub const NUMFMTS: &[&str] = &[
    "General", "0", "0.00", "#,##0", "#,##0.00", "0%", "0.00%", "0.00E+00", "# ?/?", "mm-dd-yy", "d-mmm-yy", "h:mm:ss", "@", "yyyy-mm-dd", "0.000", "#,##0.0000", "\"$\"#,##0.00",
    "[Red]0.00;[Blue]-0.00", "0.0E+0", "0.0e+0", "\"KG\"0", "\"kg\"0", "0.0\" <kg>\"", "\"a&b\"0", "#,##0 \"€\"", "[$-409]d-mmm-yyyy", "0.00_);(0.00)", "\"x'y\"0", "yyyy\"年\"m\"月\"",
];

pub fn rand_font(rng: &mut Rng) -> Font {
    let mut f = Style::get_default_value().get_font().unwrap().clone();
    if rng.chance(2, 3) {
        f.set_name(*rng.pick(&["Arial", "Arial1", "Calibri", "Times New Roman", "MS Pゴシック", "A&B <font>", "Courier New", "Arial2"]));
    }
    if rng.chance(2, 3) {
        f.set_size(*rng.pick(&[1.0, 8.0, 9.0, 10.0, 10.5, 11.0, 12.0, 14.0, 18.0, 21.0, 72.0, 110.0]));
    }
    f.set_bold(rng.chance(1, 3));
    f.set_italic(rng.chance(1, 3));
    if rng.chance(1, 3) {
        f.set_underline(*rng.pick(&["single", "double", "singleAccounting", "doubleAccounting"]));
    }
    f.set_strikethrough(rng.chance(1, 4));
    if rng.chance(1, 2) {
        f.set_color(rand_color(rng));
    }
    if rng.chance(1, 4) {
        f.set_family(rng.range(0, 5) as i32);
    }
    if rng.chance(1, 4) {
        f.set_charset(*rng.pick(&[0, 1, 128, 129, 134, 136, 204]));
    }
    if rng.chance(1, 4) {
        f.set_scheme(*rng.pick(&["minor", "major", "none"]));
    }
    f
}

pub fn rand_border(rng: &mut Rng) -> Border {
    let mut b = Border::default();
    b.set_border_style(*rng.pick(&[
        Border::BORDER_THIN, Border::BORDER_MEDIUM, Border::BORDER_DASHED, Border::BORDER_DOTTED, Border::BORDER_THICK, Border::BORDER_DOUBLE, Border::BORDER_HAIR, Border::BORDER_MEDIUMDASHED,
        Border::BORDER_DASHDOT, Border::BORDER_MEDIUMDASHDOT, Border::BORDER_DASHDOTDOT, Border::BORDER_MEDIUMDASHDOTDOT, Border::BORDER_SLANTDASHDOT,
    ]));
    if rng.chance(2, 3) {
        b.set_color(rand_color(rng));
    }
    b
}

pub fn rand_style(rng: &mut Rng) -> Style {
    let mut st = Style::default();
    if rng.chance(2, 3) {
        st.set_font(rand_font(rng));
    }
    if rng.chance(1, 2) {
        let pf = st.get_fill_mut().get_pattern_fill_mut();
        pf.set_pattern_type(rng.pick(&[PatternValues::Solid, PatternValues::Gray125, PatternValues::DarkGray, PatternValues::LightGrid, PatternValues::DarkDown, PatternValues::LightTrellis]).clone());
        if rng.chance(3, 4) {
            pf.set_foreground_color(rand_color(rng));
        }
        if rng.chance(1, 2) {
            pf.set_background_color(rand_color(rng));
        }
    }
    else if rng.chance(1, 8) {
        // gradient fill (instead of a pattern fill)
        let g = st.get_fill_mut().get_gradient_fill_mut();
        g.set_degree(*rng.pick(&[0.0, 45.0, 90.0, 270.0]));
        for pos in [0.0, 1.0] {
            let mut stop = GradientStop::default();
            stop.set_position(pos);
            stop.set_color(rand_color(rng));
            g.set_gradient_stop(stop);
        }
    }
    if rng.chance(1, 2) {
        let b = st.get_borders_mut();
        if rng.chance(1, 2) {
            b.set_left(rand_border(rng));
        }
        if rng.chance(1, 2) {
            b.set_right(rand_border(rng));
        }
        if rng.chance(1, 2) {
            b.set_top(rand_border(rng));
        }
        if rng.chance(1, 2) {
            b.set_bottom(rand_border(rng));
        }
        if rng.chance(1, 4) {
            b.set_diagonal(rand_border(rng));
            b.set_diagonal_up(rng.chance(1, 2));
            b.set_diagonal_down(rng.chance(1, 2));
        }
    }
    if rng.chance(1, 2) {
        let a = st.get_alignment_mut();
        a.set_horizontal(rng.pick(&[HorizontalAlignmentValues::General, HorizontalAlignmentValues::Left, HorizontalAlignmentValues::Center, HorizontalAlignmentValues::Right, HorizontalAlignmentValues::Fill, HorizontalAlignmentValues::Justify, HorizontalAlignmentValues::Distributed]).clone());
        a.set_vertical(rng.pick(&[VerticalAlignmentValues::Top, VerticalAlignmentValues::Center, VerticalAlignmentValues::Bottom, VerticalAlignmentValues::Justify, VerticalAlignmentValues::Distributed]).clone());
        a.set_wrap_text(rng.chance(1, 2));
        if rng.chance(1, 3) {
            a.set_text_rotation(*rng.pick(&[0, 45, 90, 135, 180, 255]));
        }
    }
    if rng.chance(1, 2) {
        st.get_number_format_mut().set_format_code(*rng.pick(NUMFMTS));
    }
    if rng.chance(1, 4) {
        let p = st.get_protection_mut();
        p.set_locked(rng.chance(1, 2));
        p.set_hidden(rng.chance(1, 2));
    }
    st
}

/// a near-duplicate of `base` differing in exactly one attribute (returns the attribute's name)
pub fn mutate_style(rng: &mut Rng, base: &Style) -> (Style, &'static str) {
    let mut st = base.clone();
    let what = rng.below(14);
    match what {
        0 => {
            let n = format!("{}{}", st.get_font().map(|f| f.get_name().to_string()).unwrap_or("Calibri".into()), 1);
            st.get_font_mut().set_name(n);
            (st, "font.name")
        }
        1 => {
            let s = *st.get_font_mut().get_size();
            st.get_font_mut().set_size(if s == 11.0 { 1.0 } else { s + 1.0 });
            (st, "font.size")
        }
        2 => {
            let b = *st.get_font_mut().get_bold();
            st.get_font_mut().set_bold(!b);
            (st, "font.bold")
        }
        3 => {
            let b = *st.get_font_mut().get_italic();
            st.get_font_mut().set_italic(!b);
            (st, "font.italic")
        }
        4 => {
            let u = st.get_font_mut().get_underline().to_string();
            st.get_font_mut().set_underline(if u == "double" { "single" } else { "double" });
            (st, "font.underline")
        }
        5 => {
            let b = *st.get_font_mut().get_strikethrough();
            st.get_font_mut().set_strikethrough(!b);
            (st, "font.strike")
        }
        6 => {
            let c = st.get_font_mut().get_color().get_argb().to_string();
            st.get_font_mut().get_color_mut().set_argb(if c == "FF123456" { "FF123457" } else { "FF123456" });
            (st, "font.color")
        }
        7 => {
            let pf = st.get_fill_mut().get_pattern_fill_mut();
            let cur = pf.get_foreground_color().map(|c| c.get_argb().to_string()).unwrap_or_default();
            if *pf.get_pattern_type() == PatternValues::None {
                pf.set_pattern_type(PatternValues::Solid);
            }
            pf.get_foreground_color_mut().set_argb(if cur == "FFABCDEF" { "FFABCDEE" } else { "FFABCDEF" });
            (st, "fill.fg")
        }
        8 => {
            let cur = st.get_borders_mut().get_left().get_border_style().to_string();
            st.get_borders_mut().get_left_mut().set_border_style(if cur == Border::BORDER_THIN { Border::BORDER_MEDIUM } else { Border::BORDER_THIN });
            (st, "border.left")
        }
        9 => {
            let cur = st.get_borders_mut().get_bottom().get_border_style().to_string();
            st.get_borders_mut().get_bottom_mut().set_border_style(if cur == Border::BORDER_THIN { Border::BORDER_DOUBLE } else { Border::BORDER_THIN });
            (st, "border.bottom")
        }
        10 => {
            let w = *st.get_alignment_mut().get_wrap_text();
            st.get_alignment_mut().set_wrap_text(!w);
            (st, "align.wrap")
        }
        11 => {
            let h = st.get_alignment_mut().get_horizontal().clone();
            st.get_alignment_mut().set_horizontal(if h == HorizontalAlignmentValues::Center { HorizontalAlignmentValues::Right } else { HorizontalAlignmentValues::Center });
            (st, "align.h")
        }
        12 => {
            let cur = st.get_number_format().map(|n| n.get_format_code().to_string()).unwrap_or_default();
            st.get_number_format_mut().set_format_code(if cur == "0.000" { "0.0000" } else { "0.000" });
            (st, "numfmt.code")
        }
        _ => {
            let l = *st.get_protection_mut().get_locked();
            st.get_protection_mut().set_locked(!l);
            (st, "prot")
        }
    }
}
