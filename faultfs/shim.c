/* LD_PRELOAD fault shim for C13: fails selected libc calls on paths that contain UVF_PATH_SUBSTR.
 *   UVF_OP      write | rename | open      which call family to fail
 *   UVF_FAIL_AT n                          fail the n-th matching call (0-based) and every later one
 *   UVF_ERRNO   ENOSPC | EIO | EDQUOT      (default ENOSPC)
 *   UVF_SHORT   1                          the n-th write first makes a short write of half the buffer, the next one fails
 * Counters are per process. Written for this verification harness only. */
#define _GNU_SOURCE
#include <dlfcn.h>
#include <errno.h>
#include <fcntl.h>
#include <stdarg.h>
#include <stdio.h>
#include <stdlib.h>
#include <string.h>
#include <unistd.h>
#include <sys/types.h>

static int counter = 0;
static int the_errno(void) {
    const char *e = getenv("UVF_ERRNO");
    if (e && !strcmp(e, "EIO")) return EIO;
    if (e && !strcmp(e, "EDQUOT")) return EDQUOT;
    return ENOSPC;
}
static int op_is(const char *op) { const char *o = getenv("UVF_OP"); return o && !strcmp(o, op); }
static int path_matches(const char *p) { const char *pat = getenv("UVF_PATH_SUBSTR"); return pat && p && strstr(p, pat) != NULL; }
static int fd_matches(int fd) {
    char link[64], buf[4096];
    snprintf(link, sizeof link, "/proc/self/fd/%d", fd);
    ssize_t n = readlink(link, buf, sizeof buf - 1);
    if (n <= 0) return 0;
    buf[n] = 0;
    return path_matches(buf);
}
static int should_fail(void) {
    const char *k = getenv("UVF_FAIL_AT");
    int at = k ? atoi(k) : -1;
    int c = __sync_fetch_and_add(&counter, 1);
    return at >= 0 && c >= at;
}

ssize_t write(int fd, const void *b, size_t n) {
    static ssize_t (*real)(int, const void *, size_t);
    if (!real) real = dlsym(RTLD_NEXT, "write");
    if (op_is("write") && fd_matches(fd)) {
        const char *k = getenv("UVF_FAIL_AT");
        int at = k ? atoi(k) : -1;
        int c = __sync_fetch_and_add(&counter, 1);
        if (at >= 0 && c == at && getenv("UVF_SHORT") && n > 1) return real(fd, b, n / 2);
        if (at >= 0 && c >= at) { errno = the_errno(); return -1; }
    }
    return real(fd, b, n);
}
int rename(const char *a, const char *b) {
    static int (*real)(const char *, const char *);
    if (!real) real = dlsym(RTLD_NEXT, "rename");
    if (op_is("rename") && (path_matches(a) || path_matches(b)) && should_fail()) { errno = the_errno(); return -1; }
    return real(a, b);
}
static int open_common(const char *name, const char *path, int flags, mode_t mode) {
    int (*real)(const char *, int, ...) = dlsym(RTLD_NEXT, name);
    if (op_is("open") && (flags & (O_CREAT | O_WRONLY | O_RDWR)) && path_matches(path) && should_fail()) { errno = the_errno(); return -1; }
    return real(path, flags, mode);
}
int open(const char *path, int flags, ...) { va_list ap; va_start(ap, flags); mode_t m = (flags & O_CREAT) ? va_arg(ap, mode_t) : 0; va_end(ap); return open_common("open", path, flags, m); }
int open64(const char *path, int flags, ...) { va_list ap; va_start(ap, flags); mode_t m = (flags & O_CREAT) ? va_arg(ap, mode_t) : 0; va_end(ap); return open_common("open64", path, flags, m); }
